#!/usr/bin/env python3
"""Seeded-defect bookkeeping.
  tools/seed.py verify <src_dir> <name> <property>   confirm (tests pass with patch, demo fails with / passes without), store under seeded/<name>
  tools/seed.py run <name> <check id> [...]           run quick checks against a scratch copy of /repo with the patch applied (SX_ROOT)
"""
import json
import os
import shutil
import subprocess
import sys
import tempfile
import time

ROOT = os.path.dirname(os.path.dirname(os.path.abspath(__file__)))


def sh(cmd, **kw):
    return subprocess.run(cmd, shell=True, capture_output=True, text=True, **kw)


def verify(src, name, prop):
    wt = tempfile.mkdtemp(prefix="seedchk_", dir="/tmp")
    os.rmdir(wt)
    assert sh(f"git -C /repo worktree add -q --detach {wt} HEAD").returncode == 0
    meta = {"property": prop, "name": name, "ran": []}
    try:
        demo = os.path.join(src, "demo.py")
        r0 = sh(f"PYTHONPATH={wt} /venv/bin/python {demo}", cwd=wt)
        meta["demo_without_patch_exit"] = r0.returncode
        ap = sh(f"git -C {wt} apply {os.path.join(src, 'patch.diff')}")
        meta["applies"] = ap.returncode == 0
        if ap.returncode != 0:
            meta["apply_error"] = ap.stderr[-500:]
        else:
            t = sh(f"PYTHONPATH={wt} /venv/bin/python -m pytest -q -p no:cacheprovider tests 2>&1 | tail -1", cwd=wt)
            meta["tests_with_patch"] = t.stdout.strip()
            r1 = sh(f"PYTHONPATH={wt} /venv/bin/python {demo}", cwd=wt)
            meta["demo_with_patch_exit"] = r1.returncode
            meta["demo_with_patch_tail"] = (r1.stdout + r1.stderr)[-400:]
        meta["ran"] = ["git worktree add", "demo.py without patch", "git apply patch.diff", "pytest tests", "demo.py with patch"]
        ok = meta.get("applies") and "362 passed" in meta.get("tests_with_patch", "") and meta["demo_without_patch_exit"] == 0 and meta.get("demo_with_patch_exit", 0) != 0
        meta["confirmed"] = bool(ok)
    finally:
        sh(f"git -C /repo worktree remove --force {wt}")
    notes = os.path.join(src, "notes.txt")
    meta["needs"] = open(notes).read().strip() if os.path.exists(notes) else ""
    print(json.dumps({k: meta[k] for k in meta if k != "needs"}, indent=1))
    if meta["confirmed"]:
        dst = os.path.join(ROOT, "seeded", name)
        os.makedirs(dst, exist_ok=True)
        shutil.copy(os.path.join(src, "patch.diff"), dst)
        shutil.copy(demo, dst)
        json.dump(meta, open(os.path.join(dst, "meta.json"), "w"), indent=1)
    return meta["confirmed"]


def run(name, checks):
    dst = os.path.join(ROOT, "seeded", name)
    meta = json.load(open(os.path.join(dst, "meta.json")))
    d = tempfile.mkdtemp(prefix="seedrun_", dir="/var/tmp")
    try:
        sh(f"git -C /repo archive HEAD schwifty | tar -x -C {d}")
        ap = sh(f"patch -p1 -s -d {d} < {os.path.join(dst, 'patch.diff')}")
        if ap.returncode != 0:
            print(name, "PATCH DOES NOT APPLY to the current tree:", (ap.stdout + ap.stderr)[-200:])
            meta.setdefault("checks", {})["_apply"] = {"exit": -1, "wall_s": 0, "lines": ["patch does not apply to the current /repo HEAD"]}
            json.dump(meta, open(os.path.join(dst, "meta.json"), "w"), indent=1)
            return
        for c in checks:
            t = time.time()
            r = sh(f"./check {c} --tier quick", cwd=ROOT, env={**os.environ, "SX_ROOT": d, "VERIF_NO_EVIDENCE": "1"})
            lines = [l for l in r.stdout.splitlines() if l.startswith(("VIOLATION", "INCONCLUSIVE", "KNOWN", c))]
            meta.setdefault("checks", {})[c] = {"exit": r.returncode, "wall_s": round(time.time() - t, 1), "lines": [l[:300] for l in lines[:6]]}
            print(name, c, "exit", r.returncode, round(time.time() - t, 1), "s")
            for l in lines[:4]:
                print("   ", l[:300])
        json.dump(meta, open(os.path.join(dst, "meta.json"), "w"), indent=1)
    finally:
        shutil.rmtree(d, ignore_errors=True)


if __name__ == "__main__":
    if sys.argv[1] == "verify":
        sys.exit(0 if verify(*sys.argv[2:5]) else 1)
    run(sys.argv[2], sys.argv[3:])
