#!/usr/bin/env python3
"""Regenerates DESIGN.md section 9 from seeded/*/meta.json and evidence/*.json."""
import glob
import json
import os

ROOT = os.path.dirname(os.path.dirname(os.path.abspath(__file__)))
out = ["## 9. Results", "", "### 9.1 Quick tier on the unchanged tree (16 cores; from the evidence files of the last run)", "",
       "| check | jobs | paths | solver queries (unsat / sat) | obligations | replayed on real library | wall s | exit |", "|---|---|---|---|---|---|---|---|"]
for f in sorted(glob.glob(os.path.join(ROOT, "evidence", "C*.json"))):
    e = json.load(open(f))
    c = e["coverage"]
    out.append(f"| {e['property_id']} ({e['tier']}) | {c['jobs']} | {c['states']} | {c['queries']['total']} ({c['queries']['unsat']} / {c['queries']['sat']}) | {c['obligations_discharged']} | {c['replayed']} | {e['wall_s']} | {'0' if not c['inconclusive'] and not e['violations'] else ('1' if e['violations'] else '2')} |")
out += ["", "### 9.2 Seeded changes (written by independent sub-agents from the property text only; each confirmed by me: applies, 362 tests pass, demo fails with / passes without)", "",
        "exit 1 = caught with a counterexample that reproduces on the changed library; exit 2 = the check does not pass but cannot produce a verdict (inconclusive); exit 0 = missed by that check.", "",
        "| seed | property | what it needs to manifest | checks run (exit) |", "|---|---|---|---|"]
for d in sorted(glob.glob(os.path.join(ROOT, "seeded", "*"))):
    m = json.load(open(os.path.join(d, "meta.json")))
    needs = " ".join(m.get("needs", "").split())[:260]
    runs = ", ".join(f"{k}: {v['exit']}" for k, v in sorted(m.get("checks", {}).items())) or "-"
    out.append(f"| {m['name']} | {m['property']} | {needs} | {runs} |")
s = open(os.path.join(ROOT, "DESIGN.md")).read()
i = s.index("## 9. Results")
tail = ""
if "### 9.3" in s:
    tail = "\n" + s[s.index("### 9.3") :]
open(os.path.join(ROOT, "DESIGN.md"), "w").write(s[:i] + "\n".join(out) + "\n" + tail)
print("section 9 regenerated:", len(out), "lines")
