#!/usr/bin/env python3
"""Development aid: run a command against a scratch copy of /repo/schwifty with one textual replacement applied.
usage: tools/mutant.py <relative file> <old> <new> -- <command...>     (SX_ROOT points the checks at the copy)"""
import os
import shutil
import subprocess
import sys
import tempfile

i = sys.argv.index("--")
rel, old, new = sys.argv[1:4]
cmd = sys.argv[i + 1 :]
d = tempfile.mkdtemp(prefix="sxmut_", dir="/var/tmp")
try:
    shutil.copytree("/repo/schwifty", os.path.join(d, "schwifty"))
    p = os.path.join(d, rel)
    s = open(p).read()
    if old not in s:
        sys.exit(f"pattern not found in {rel}")
    open(p, "w").write(s.replace(old, new, 1))
    r = subprocess.run(cmd, env={**os.environ, "SX_ROOT": d})
    sys.exit(r.returncode)
finally:
    shutil.rmtree(d, ignore_errors=True)
