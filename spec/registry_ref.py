"""Reference semantics of the bank-code <-> BIC look-ups over a bank list (independent of schwifty.registry)."""


_C = {}


def by_code(banks, cache=False):
    k = ("code", id(banks), len(banks))
    if cache and k in _C:
        return _C[k]
    idx = {}
    if cache:
        _C[k] = idx
    for e in banks:
        cc, code = e.get("country_code"), e.get("bank_code")
        if cc and code:
            idx.setdefault((cc, code), []).append(e)
    return idx


def by_bic(banks, cache=False):
    k = ("bic", id(banks), len(banks))
    if cache and k in _C:
        return _C[k]
    idx = {}
    if cache:
        _C[k] = idx
    for e in banks:
        if e.get("bic"):
            idx.setdefault(e["bic"], []).append(e)
    return idx


def candidates(idx, cc, code):
    """non-empty BICs listed for the pair, primary entries first, otherwise list order; None if the pair is unlisted"""
    es = idx.get((cc, code))
    if es is None:
        return None
    prim = [e for e in es if e.get("primary")]
    rest = [e for e in es if not e.get("primary")]
    return [e["bic"] for e in prim + rest if e.get("bic")]


def chosen_ok(cands, chosen):
    """the selection relation of C12: one of the candidates; 8 characters long if any candidate is; else one with
    branch XXX if any; else the first"""
    if chosen not in cands:
        return False
    if len(cands) == 1:
        return True
    if any(len(c) == 8 for c in cands):
        return len(chosen) == 8
    if any(c.endswith("XXX") and len(c) == 11 for c in cands):
        return chosen.endswith("XXX")
    return chosen == cands[0]


def values_for_bic(bidx, bic, key):
    return sorted({e[key] for e in bidx.get(bic, [])})
