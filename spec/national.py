"""Reference national check-digit rules for the 22 countries of C06 (dual use: Python values or z3 terms).

Every reference takes `f`, a dict component-name -> list of character values, where a character value is
   ("d", v)             a decimal digit with value v
   ("c", isdigit, vd, vl)   an alphanumeric: digit value vd if isdigit else letter index vl (A=0..Z=25)
   ("a", vl)            a letter, index vl
and returns (accept, certain).  Components are cut from the BBAN at the positions of the *reference* table.
Sources (transcribed from memory of the published rules; no network in the sandbox):
  BE  Belgian account number: first ten digits mod 97, remainder 0 -> 97
  BA ME MK PT RS SI TL  ISO 7064 mod 97-10 over bank+branch+account (letters A=10..Z=35): 98 - (n*100 mod 97)
  MR TN                 same with 97 - (n*100 mod 97)
  ES  Codigo Cuenta Cliente: two mod-11 digits, weights 4,8,5,10,9,7,3,6 / 1,2,4,8,5,10,9,7,3,6; 10 -> 1, 11 -> 0
  FR MC  cle RIB: 97 - ((89*b + 15*g + 3*c) mod 97), letters A-I=1-9, J-R=1-9, S-Z=2-9
  IT SM  CIN: odd/even position tables over ABI+CAB+account, sum mod 26 -> letter
  FI  Luhn mod 10 over the 13 digits before the check digit
  NO  mod 11, weights 5,4,3,2,7,6,5,4,3,2; 11 - r; r = 0 -> 0; computed 10 -> no valid number
  PL  sort code check: weights 3,9,7,1,3,9,7 mod 10
  EE  7-3-1 method from the right
  CZ SK  prefix and base number each divisible by 11 under weights 6,3,7,9,10,5,8,4,2,1
  IS  kennitala: weights 3,2,7,6,5,4,3,2 over the first eight digits, ninth digit = 11 - r (r = 0 -> 0)
"""
from spec.ops import AND, IF, NOT, OR  # noqa: F401

COUNTRIES = ["BE", "BA", "ES", "FR", "MC", "IT", "SM", "FI", "NO", "PL", "EE", "PT", "RS", "ME", "MK", "SI", "TL", "MR", "TN", "CZ", "SK", "IS"]
UNCERTAIN = {"NO": "account numbers whose account part starts with '00' (the library switches to a different rule there)"}


def dv(ch):
    """decimal value of a digit character value"""
    assert ch[0] == "d", ch
    return ch[1]


def number(chars):
    """integer value of a run of digits"""
    n = 0
    for ch in chars:
        n = n * 10 + dv(ch)
    return n


NUMERIC = None  # set by the harness: chars (with their engine source objects) -> z3 integer (definitional)


def iso_number(chars):
    """the decimal integer obtained by concatenating the A=10..Z=35 expansions (ISO 13616 convention)"""
    if all(isinstance(x, int) for ch in chars for x in ch[1:] if not hasattr(x, "term")):
        out = ""
        for ch in chars:
            if ch[0] == "d":
                out += str(ch[1])
            elif ch[0] == "a":
                out += str(ch[1] + 10)
            else:
                out += str(ch[2] if ch[1] else ch[3] + 10)
        return int(out) if out else 0
    return NUMERIC([ch[-1] for ch in chars])


def two_digits(chars):
    return dv(chars[0]) * 10 + dv(chars[1])


def ref_iso(f, minuend):
    r = (iso_number(f["bank_code"] + f["branch_code"] + f["account_code"]) * 100) % 97
    return (minuend - r) == two_digits(f["national_checksum_digits"]), True


def ref_BE(f):
    r = number(f["bank_code"] + f["account_code"]) % 97
    return IF(r == 0, 97, r) == two_digits(f["national_checksum_digits"]), True


def wsum(chars, weights):
    t = 0
    for w, ch in zip(weights, chars):
        t = t + w * dv(ch)
    return t


def ref_ES(f):
    w = [1, 2, 4, 8, 5, 10, 9, 7, 3, 6]

    def rec(n):
        return IF(n == 11, 0, IF(n == 10, 1, n))

    d1 = rec(11 - wsum(f["bank_code"] + f["branch_code"], w[2:]) % 11)
    d2 = rec(11 - wsum(f["account_code"], w) % 11)
    c = f["national_checksum_digits"]
    return AND(d1 == dv(c[0]), d2 == dv(c[1])), True


FR_TABLE = {**{str(d): d for d in range(10)}, **{c: v for c, v in zip("ABCDEFGHIJKLMNOPQRSTUVWXYZ", [1, 2, 3, 4, 5, 6, 7, 8, 9, 1, 2, 3, 4, 5, 6, 7, 8, 9, 2, 3, 4, 5, 6, 7, 8, 9])}}
CHAR_LOOKUP = None  # set by the harness: (engine source char, dict char -> int) -> z3 term in the engine's canonical form
LIST_LOOKUP = None  # set by the harness: (list of ints, z3 index term) -> z3 term in the engine's canonical form


def char_of(ch):
    """concrete character of a concrete character value"""
    if ch[0] == "d":
        return str(ch[1])
    if ch[0] == "a":
        return chr(65 + ch[1])
    return str(ch[2]) if ch[1] else chr(65 + ch[3])


def is_concrete(ch):
    return all(isinstance(x, (int, bool)) for x in ch[1:] if not hasattr(x, "term"))


def fr_value(ch):
    if is_concrete(ch):
        return FR_TABLE[char_of(ch)]
    return CHAR_LOOKUP(ch[-1], FR_TABLE)


def ref_FR(f):
    def num(chars):
        n = 0
        for ch in chars:
            n = n * 10 + fr_value(ch)
        return n

    r = (89 * num(f["bank_code"]) + 15 * num(f["branch_code"]) + 3 * num(f["account_code"])) % 97
    return (97 - r) == two_digits(f["national_checksum_digits"]), True


ODDS = [1, 0, 5, 7, 9, 13, 15, 17, 19, 21, 2, 4, 18, 20, 11, 3, 6, 8, 12, 14, 16, 10, 22, 25, 24, 23]


def ref_IT(f):
    chars = f["bank_code"] + f["branch_code"] + f["account_code"]
    total = 0
    for pos, ch in enumerate(chars):
        if ch[0] in ("d", "a"):
            idx = ch[1]
        else:
            idx = IF(ch[1], ch[2], ch[3])
        if (pos + 1) % 2 == 0:
            total = total + idx
        elif isinstance(idx, int):
            total = total + ODDS[idx]
        elif ch[0] == "c":
            total = total + IF(ch[1], LIST_LOOKUP(ODDS, ch[2]), LIST_LOOKUP(ODDS, ch[3]))
        else:
            total = total + LIST_LOOKUP(ODDS, idx)
    cin = f["national_checksum_digits"][0]
    assert cin[0] == "a"
    return (total % 26) == cin[1], True


def ref_FI(f):
    digits = [dv(ch) for ch in f["bank_code"] + f["account_code"]]
    t = 0
    for i, d in enumerate(reversed(digits)):
        if i % 2 == 0:
            t = t + IF(d * 2 >= 10, d * 2 - 9, d * 2)
        else:
            t = t + d
    return ((10 - t % 10) % 10) == dv(f["national_checksum_digits"][0]), True


def ref_NO(f):
    acc = f["account_code"]
    r = wsum(f["bank_code"] + acc, [5, 4, 3, 2, 7, 6, 5, 4, 3, 2]) % 11
    k = 11 - r
    ok = AND(k != 10, IF(k == 11, 0, k) == dv(f["national_checksum_digits"][0]))
    return ok, NOT(AND(dv(acc[0]) == 0, dv(acc[1]) == 0))


def ref_PL(f):
    r = wsum(f["bank_code"] + f["branch_code"], [3, 9, 7, 1, 3, 9, 7]) % 10
    return IF(r == 0, 0, 10 - r) == dv(f["national_checksum_digits"][0]), True


def ref_EE(f):
    chars = (f["branch_code"] + f["account_code"])[::-1]
    r = wsum(chars, [7, 3, 1] * 8) % 10
    return IF(r == 0, 0, 10 - r) == dv(f["national_checksum_digits"][0]), True


def ref_CZ(f):
    w = [6, 3, 7, 9, 10, 5, 8, 4, 2, 1]
    return AND(wsum(f["branch_code"], w[4:]) % 11 == 0, wsum(f["account_code"], w) % 11 == 0), True


def ref_IS(f):
    k = f["account_holder_id"]
    r = wsum(k[:8], [3, 2, 7, 6, 5, 4, 3, 2]) % 11
    # r == 1 would need check digit 10: no valid number
    return AND(r != 1, IF(r == 0, 0, 11 - r) == dv(k[8])), True


REFS = {
    "BE": ref_BE, "ES": ref_ES, "FR": ref_FR, "MC": ref_FR, "IT": ref_IT, "SM": ref_IT, "FI": ref_FI, "NO": ref_NO,
    "PL": ref_PL, "EE": ref_EE, "CZ": ref_CZ, "SK": ref_CZ, "IS": ref_IS,
    **{cc: (lambda f: ref_iso(f, 98)) for cc in ["BA", "ME", "MK", "PT", "RS", "SI", "TL"]},
    **{cc: (lambda f: ref_iso(f, 97)) for cc in ["MR", "TN"]},
}


def concrete_fields(cc, bban):
    """component dict of character values for a concrete BBAN string, cut at the reference positions"""
    from spec import table

    out = {}
    for comp in table.COMPONENTS:
        a, b = table.positions(cc).get(comp, (0, 0))
        vals = []
        for ch in bban[a:b]:
            if ch.isdigit():
                vals.append(("d", int(ch)))
            else:
                vals.append(("a", ord(ch) - 65))
        out[comp] = vals
    return out


def accepts_concrete(cc, bban):
    a, c = REFS[cc](concrete_fields(cc, bban))
    return bool(a), bool(c)
