"""ISO 13616 reference: acceptance of a compact IBAN string over the bundled country table.

Two forms of the same definition:
  accepts_concrete(s)       plain Python, used to validate the reference against the repo's literals and in replay
  Z3Spec(cc, chars)         terms over the engine's character variables, used as the oracle in final queries
The numeric value is *definitional* (ISO 13616: move the first four characters to the end, replace each letter by
two digits A=10..Z=35, read as a decimal integer) and is built with the same decimal-concatenation constructor as
the engine's int() model, from this module's own value table.
"""
from spec import table

DIGITS = "0123456789"
UPPERS = "ABCDEFGHIJKLMNOPQRSTUVWXYZ"
VALUE = {**{ord(c): i for i, c in enumerate(DIGITS)}, **{ord(c): 10 + i for i, c in enumerate(UPPERS)}}
CLASS_RANGES = {"n": [[48, 57]], "a": [[65, 90]], "c": [[48, 57], [65, 90]], "e": [[32, 32]]}


def char_in_class(cp, k):
    return any(lo <= cp <= hi for lo, hi in CLASS_RANGES[k])


def numeric_concrete(s):
    return int("".join(str(VALUE[ord(c)]) for c in s[4:] + s[:4]))


def structure_ok_concrete(s):
    """country known, length right, check digits are digits, every BBAN char in its class"""
    if len(s) < 4 or s[:2] not in table.countries():
        return False
    cls = table.classes(s[:2])
    if cls is None or len(s) != 4 + len(cls):
        return False
    if not (s[2] in DIGITS and s[3] in DIGITS):
        return False
    return all(char_in_class(ord(c), k) for c, k in zip(s[4:], cls))


def accepts_concrete(s):
    if not structure_ok_concrete(s):
        return False
    if "e" in table.classes(s[:2]):
        return False  # a blank can never survive normalisation
    return numeric_concrete(s) % 97 == 1 and 2 <= int(s[2:4]) <= 98


def check_digits_concrete(cc, bban):
    n = int("".join(str(VALUE[ord(c)]) for c in bban + cc)) * 100
    return f"{98 - n % 97:02d}"


def normalise_concrete(text):
    """reference normaliser h*: delete whitespace (str.isspace), then full upper-case mapping per character"""
    return "".join(ch.upper() for ch in text if not ch.isspace())
