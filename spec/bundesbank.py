"""Reference implementations of the Bundesbank check-digit methods ("Pruefzifferberechnungsmethoden") that schwifty
registers, transcribed from the published descriptions as known to the author (no network / PDF in the sandbox).

Each reference takes d = ten digit values (d[0] is position 1, the leftmost; Python ints or z3 Int terms) and returns
(accept, certain):  `accept` is the method's verdict, `certain` the condition under which the transcription is certain.
Clauses of a published rule that could not be stated with certainty are NOT put into the reference; the inputs they
affect are excluded through `certain` (oracle-uncertainty policy, DESIGN.md 2.7) and listed in UNCERTAIN below.
"""
from spec.ops import AND, IF, NOT, OR

UNCERTAIN = {
    "13": "second variant (sub-account omitted: base number in positions 4-9, check digit 10): excluded when variant 1 rejects and the shifted variant would accept",
    "21": "account numbers whose weighted sum is 0 (computed value 10)",
    "63": "second variant (sub-account omitted, positions 1-3 zero: base number in positions 4-9): excluded when variant 1 rejects and the shifted variant would accept",
    "68": "account numbers with fewer than six significant digits",
    "76": "remainder 10 (published rule: number unusable); second variant (sub-account omitted, shifted by two) excluded when variant 1 rejects and the shifted variant would accept",
}


def qs(x):
    """digit sum of a product 0..18"""
    return IF(x >= 10, x - 9, x)


def rsum(d, lo, hi, weights, f=lambda x: x):
    """weighted sum over positions lo..hi (1-based, inclusive), weights applied from the right, cyclic"""
    digs = [d[i - 1] for i in range(lo, hi + 1)][::-1]
    total = 0
    for i, x in enumerate(digs):
        total = total + f(x * weights[i % len(weights)])
    return total


def p_mod10(s):
    return (10 - s % 10) % 10


def p_06(s):
    r = s % 11
    return IF(r <= 1, 0, 11 - r)


def like00(d, lo=1, hi=9, chk=10):
    return p_mod10(rsum(d, lo, hi, [2, 1], qs)) == d[chk - 1]


def like01(d, weights, lo=1, hi=9, chk=10):
    return p_mod10(rsum(d, lo, hi, weights)) == d[chk - 1]


def like02(d, weights, lo=1, hi=9, chk=10):
    r = rsum(d, lo, hi, weights) % 11
    return AND(r != 1, IF(r == 0, 0, 11 - r) == d[chk - 1])


def like06(d, weights, lo=1, hi=9, chk=10):
    return p_06(rsum(d, lo, hi, weights)) == d[chk - 1]


T = True


def m00(d):
    return like00(d), T


def m01(d):
    return like01(d, [3, 7, 1]), T


def m02(d):
    return like02(d, [2, 3, 4, 5, 6, 7, 8, 9]), T


def m03(d):
    return like01(d, [2, 1]), T


def m04(d):
    return like02(d, [2, 3, 4, 5, 6, 7]), T


def m05(d):
    return like01(d, [7, 3, 1]), T


def m06(d):
    return like06(d, [2, 3, 4, 5, 6, 7]), T


def m07(d):
    return like02(d, [2, 3, 4, 5, 6, 7, 8, 9, 10]), T


def value(d):
    v = 0
    for x in d:
        v = v * 10 + x
    return v


def m08(d):
    # as 00, but only from account number 60 000 on; smaller numbers carry no check digit
    return IF(value(d) < 60000, True, like00(d)), T


def m09(d):
    return True, T


def m10(d):
    return like06(d, [2, 3, 4, 5, 6, 7, 8, 9, 10]), T


def m11(d):
    # as 06, but a computed 10 (remainder 1) gives check digit 9 instead of 0
    r = rsum(d, 1, 9, [2, 3, 4, 5, 6, 7, 8, 9, 10]) % 11
    p = IF(r == 0, 0, IF(r == 1, 9, 11 - r))
    return p == d[9], T


def m13(d):
    v1 = like00(d, 2, 7, 8)
    v2 = like00(d, 4, 9, 10)
    return v1, OR(v1, NOT(v2))


def m14(d):
    return like02(d, [2, 3, 4, 5, 6, 7], 4, 9, 10), T


def m15(d):
    return like06(d, [2, 3, 4, 5], 6, 9, 10), T


def m16(d):
    # as 06 over positions 1-9 (weights 2..7 cyclic); with remainder 1 the number is right iff positions 9 and 10 agree
    s = rsum(d, 1, 9, [2, 3, 4, 5, 6, 7])
    return OR(AND(s % 11 == 1, d[8] == d[9]), p_06(s) == d[9]), T


def m17(d):
    # positions 2-7, left to right weights 1,2,1,2,1,2, digit sums; sum - 1; remainder mod 11; 10 - remainder (0 -> 0)
    s = 0
    for i, pos in enumerate(range(2, 8)):
        s = s + qs(d[pos - 1] * [1, 2][i % 2])
    r = (s - 1) % 11
    p = IF(r == 0, 0, 10 - r)
    return p == d[7], T


def m18(d):
    return like01(d, [3, 9, 7, 1]), T


def m19(d):
    return like06(d, [2, 3, 4, 5, 6, 7, 8, 9, 1]), T


def m20(d):
    return like06(d, [2, 3, 4, 5, 6, 7, 8, 9, 3]), T


def m21(d):
    # as 00, but the whole sum is reduced by repeated digit sums to one digit; 10 - that digit
    s = rsum(d, 1, 9, [2, 1])
    root = 1 + (s - 1) % 9  # digital root for s >= 1
    return (10 - root) == d[9], s >= 1


def m22(d):
    # weights 3,1,...; only the units of each product are added
    s = rsum(d, 1, 9, [3, 1], lambda x: x % 10)
    return p_mod10(s) == d[9], T


def m23(d):
    # as 16 on positions 1-6, check digit 7; remainder 1: right iff positions 6 and 7 agree
    s = rsum(d, 1, 6, [2, 3, 4, 5, 6, 7])
    return OR(AND(s % 11 == 1, d[5] == d[6]), p_06(s) == d[6]), T


def m24(d):
    # left to right weights 1,2,3 cyclic from the first significant digit; first digit 3,4,5,6 counts as 0;
    # first digit 9: positions 1-3 count as 0; per position (digit*w + w) mod 11; sum mod 10
    x = list(d[:9])
    first = x[0]
    x[0] = IF(OR(first == 3, first == 4, first == 5, first == 6, first == 9), 0, first)
    x[1] = IF(first == 9, 0, x[1])
    x[2] = IF(first == 9, 0, x[2])
    w = [1, 2, 3]

    def s_from(k):
        t = 0
        for i in range(k, 9):
            wi = w[(i - k) % 3]
            t = t + (x[i] * wi + wi) % 11
        return t

    s = 0  # all nine digits zero: empty sum
    for k in range(8, -1, -1):
        lead = AND(*[x[i] == 0 for i in range(k)]) if k else True
        s = IF(AND(lead, x[k] != 0), s_from(k), s)
    return (s % 10) == d[9], T


def m25(d):
    r = rsum(d, 2, 9, [2, 3, 4, 5, 6, 7, 8, 9]) % 11
    p = IF(r == 0, 0, 11 - r)
    ok_r1 = AND(d[9] == 0, OR(d[1] == 8, d[1] == 9))
    return IF(r == 1, ok_r1, p == d[9]), T


def m26(d):
    shifted = list(d[2:]) + [0, 0]
    a = like06(shifted, [2, 3, 4, 5, 6, 7], 1, 7, 8)
    b = like06(d, [2, 3, 4, 5, 6, 7], 1, 7, 8)
    return IF(AND(d[0] == 0, d[1] == 0), a, b), T


def m28(d):
    return like06(d, [2, 3, 4, 5, 6, 7, 8], 1, 7, 8), T


def m32(d):
    return like06(d, [2, 3, 4, 5, 6, 7], 4, 9, 10), T


def m33(d):
    return like06(d, [2, 3, 4, 5, 6], 5, 9, 10), T


def m34(d):
    return like06(d, [2, 4, 8, 5, 10, 9, 7], 1, 7, 8), T


def m38(d):
    return like06(d, [2, 4, 8, 5, 10, 9], 4, 9, 10), T


def m60(d):
    return like00(d, 3, 9, 10), T


def m61(d):
    base = rsum(d, 1, 7, [2, 1], qs)
    # account type (position 9) = 8: positions 9 and 10 join with weights 1 and 2
    ext = base + qs(d[8] * 1) + qs(d[9] * 2)
    return p_mod10(IF(d[8] == 8, ext, base)) == d[7], T


def m63(d):
    v1 = AND(d[0] == 0, like00(d, 2, 7, 8))
    v2 = AND(d[0] == 0, d[1] == 0, d[2] == 0, like00(d, 4, 9, 10))
    return v1, OR(v1, NOT(v2))


def m68(d):
    ten = d[0] != 0
    a10 = AND(d[3] == 9, like00(d, 4, 9, 10))
    exempt = AND(d[0] == 0, d[1] == 4)  # 400000000 .. 499999999
    v1 = like00(d, 2, 9, 10)
    z = list(d)
    z[2], z[3] = 0, 0
    v2 = like00(z, 2, 9, 10)
    acc = IF(ten, a10, IF(exempt, True, OR(v1, v2)))
    six = OR(*[d[i] != 0 for i in range(5)])  # at least six significant digits
    return acc, six


def m76(d):
    kind = OR(d[0] == 0, d[0] == 4, d[0] == 6, d[0] == 7, d[0] == 8, d[0] == 9)
    r = rsum(d, 2, 7, [2, 3, 4, 5, 6, 7]) % 11
    v1 = AND(kind, r == d[7])
    kind2 = OR(d[2] == 0, d[2] == 4, d[2] == 6, d[2] == 7, d[2] == 8, d[2] == 9)
    r2 = rsum(d, 4, 9, [2, 3, 4, 5, 6, 7]) % 11
    v2 = AND(kind2, r2 == d[9])
    return v1, AND(r != 10, OR(v1, NOT(v2)))


def m88(d):
    a = like06(d, [2, 3, 4, 5, 6, 7, 8], 3, 9, 10)
    b = like06(d, [2, 3, 4, 5, 6, 7], 4, 9, 10)
    return IF(d[2] == 9, a, b), T


def m91(d):
    v1 = like06(d, [2, 3, 4, 5, 6, 7], 1, 6, 7)
    v2 = like06(d, [7, 6, 5, 4, 3, 2], 1, 6, 7)
    v3 = like06(d, [2, 3, 4, 0, 5, 6, 7, 8, 9, 10], 1, 10, 7)
    v4 = like06(d, [2, 4, 8, 5, 10, 9], 1, 6, 7)
    return OR(v1, v2, v3, v4), T


def m99(d):
    v = value(d)
    return IF(AND(v >= 396000000, v <= 499999999), True, like06(d, [2, 3, 4, 5, 6, 7])), T


METHODS = {
    "00": m00, "01": m01, "02": m02, "03": m03, "04": m04, "05": m05, "06": m06, "07": m07, "08": m08, "09": m09,
    "10": m10, "11": m11, "13": m13, "14": m14, "15": m15, "16": m16, "17": m17, "18": m18, "19": m19, "20": m20,
    "21": m21, "22": m22, "23": m23, "24": m24, "25": m25, "26": m26, "28": m28, "32": m32, "33": m33, "34": m34,
    "38": m38, "60": m60, "61": m61, "63": m63, "68": m68, "76": m76, "88": m88, "91": m91, "99": m99,
}


def accepts_concrete(method, account):
    """(accept, certain) for a ten-digit account string"""
    d = [int(c) for c in account]
    a, c = METHODS[method](d)
    return bool(a), bool(c)
