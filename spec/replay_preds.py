"""Concrete predicates evaluated by replay.py on the real library's observed outcome (no z3 here)."""
import sys

sys.path.insert(0, "/verif")
from spec import iso13616  # noqa: E402


def _text(rec):
    a = rec["call"]["steps"][0][2][0]
    return "".join(map(chr, a["cp"]))


def c01_disagrees(rec, obs):
    """violation reproduces iff real acceptance differs from the concrete ISO 13616 reference on the normalised text"""
    s = iso13616.normalise_concrete(_text(rec))
    want = iso13616.accepts_concrete(s)
    got = obs["outcome"] == "return"
    return want != got


def norm_disagrees(rec, obs):
    want = iso13616.normalise_concrete(_text(rec))
    if obs["outcome"] != "return":
        return True
    return "".join(map(chr, obs["value"]["cp"])) != want


def c04_disagrees(rec, obs):
    from spec import iso9362

    s = iso13616.normalise_concrete(_text(rec))
    want = iso9362.accepts_concrete(s, bool(rec.get("strict")))
    return want != (obs["outcome"] == "return")


def _entrypoints(cls, text, kw):
    """(constructor outcome, validate outcome, is_valid outcome) on the real library"""
    from schwifty.exceptions import SchwiftyException

    def t(f):
        try:
            return ("ret", f())
        except Exception as e:  # noqa: BLE001
            return ("exc", e)

    r1 = t(lambda: cls(text, **kw))
    try:
        obj = cls(text, allow_invalid=True)
    except Exception as e:  # noqa: BLE001
        return r1, ("exc", e), ("exc", e), SchwiftyException
    r2 = t(lambda: obj.validate(**{k: v for k, v in kw.items() if k != "allow_invalid"}))
    r3 = t(lambda: obj.is_valid)
    return r1, r2, r3, SchwiftyException


def _c05_generic(r1, r2, r3, fam, strict=False):
    if r3[0] == "exc":
        return True
    if not strict and (r3[1] is not (r1[0] == "ret")):
        return True
    if (r2[0] == "ret") != (r1[0] == "ret"):
        return True
    if r2[0] == "ret" and r2[1] is not True:
        return True
    if r1[0] == "exc" and (not isinstance(r1[1], fam) or type(r1[1]) is not type(r2[1])):
        return True
    return False


def c05_iban(rec, obs):
    import schwifty
    from schwifty import exceptions as ex
    from spec import table

    text = _text(rec)
    r1, r2, r3, fam = _entrypoints(schwifty.IBAN, text, {})
    if _c05_generic(r1, r2, r3, fam):
        return True
    if r1[0] == "ret":
        return False
    s = iso13616.normalise_concrete(text)
    e = r1[1]
    cc = s[:2]
    known = cc in table.countries()
    cls = table.classes(cc) if known else None
    right_len = known and cls is not None and len(s) == 4 + len(cls)
    head_ok = len(s) >= 4 and s[0] in iso13616.UPPERS and s[1] in iso13616.UPPERS and s[2] in iso13616.DIGITS and s[3] in iso13616.DIGITS
    if isinstance(e, ex.InvalidCountryCode):
        return known
    if isinstance(e, ex.InvalidLength):
        return right_len
    if isinstance(e, ex.InvalidStructure):
        return head_ok and (not right_len or all(iso13616.char_in_class(ord(c), k) for c, k in zip(s[4:], cls)))
    if isinstance(e, ex.InvalidChecksumDigits):
        return not iso13616.structure_ok_concrete(s) or iso13616.accepts_concrete(s)
    return True


def c05_bic(rec, obs):
    import schwifty
    from schwifty import exceptions as ex
    from spec import iso9362

    text = _text(rec)
    strict = bool(rec.get("strict"))
    kw = {"enforce_swift_compliance": True} if strict else {}
    r1, r2, r3, fam = _entrypoints(schwifty.BIC, text, kw)
    if _c05_generic(r1, r2, r3, fam, strict):
        return True
    if r1[0] == "ret":
        return False
    s = iso13616.normalise_concrete(text)
    e = r1[1]
    if isinstance(e, ex.InvalidLength):
        return len(s) in (8, 11)
    if len(s) not in (8, 11):
        return True
    cls_ok = all(any(lo <= ord(ch) <= hi for lo, hi in rs) for ch, rs in zip(s, iso9362.position_classes(len(s), strict)))
    if isinstance(e, ex.InvalidStructure):
        return cls_ok
    if isinstance(e, ex.InvalidCountryCode):
        return s[4:6] in iso9362.alpha2_codes()
    return True


def c02_check(rec, obs):
    """from_bban: must return cc + reference digits + bban (digits in 02..98); pair: accepted iff pair == reference digits"""
    cc = rec["cc"]
    if rec["kindv"] == "from_bban":
        bban = "".join(map(chr, rec["call"]["steps"][0][2][1]["cp"]))
        want = cc + iso13616.check_digits_concrete(cc, bban) + bban
        if obs["outcome"] != "return":
            return True
        return "".join(map(chr, obs["value"]["cp"])) != want
    s = _text(rec)
    want = s[2:4] == iso13616.check_digits_concrete(cc, s[4:])
    return want != (obs["outcome"] == "return")


def c03_both_accepted(rec, obs):
    """reproduces iff original and mutated text are both accepted by the real library and differ by exactly one
    same-kind substitution or adjacent same-kind transposition at a position >= 2"""
    import schwifty

    a = "".join(map(chr, rec["orig"]["cp"]))
    b = _text(rec)
    if obs["outcome"] != "return" or len(a) != len(b) or a == b:
        return False
    try:
        schwifty.IBAN(a)
    except Exception:  # noqa: BLE001
        return False
    diff = [i for i in range(len(a)) if a[i] != b[i]]
    kind = lambda c: "d" if c.isdigit() else "l"  # noqa: E731
    if len(diff) == 1:
        i = diff[0]
        return i >= 2 and kind(a[i]) == kind(b[i])
    if len(diff) == 2 and diff[1] == diff[0] + 1:
        i = diff[0]
        return i >= 2 and a[i] == b[i + 1] and a[i + 1] == b[i] and kind(a[i]) == kind(a[i + 1])
    return False


def c11_iban(rec, obs):
    import schwifty
    from spec import table

    s = iso13616.normalise_concrete(_text(rec))
    try:
        x = schwifty.IBAN(s)
    except Exception:  # noqa: BLE001
        return False
    cc = s[:2]
    pos = table.positions(cc)
    bb = s[4:]
    if x.country_code + x.checksum_digits + str(x.bban) != x.compact or x.compact != s or str(x) != s:
        return True
    if x.country_code != cc or x.checksum_digits != s[2:4] or str(x.bban) != bb or x.bban.country_code != cc:
        return True
    rs = []
    for comp in table.COMPONENTS:
        a, b = pos.get(comp, (0, 0))
        want = bb[a:b] if (a, b) != (0, 0) else ""
        if not (0 <= a <= b <= len(bb)):
            return True
        if getattr(x, comp) != want or getattr(x.bban, comp) != want:
            return True
        if (a, b) != (0, 0):
            rs.append((a, b))
    rs.sort()
    if any(a2 < b1 for (a1, b1), (a2, b2) in zip(rs, rs[1:])):
        return True
    try:
        return schwifty.IBAN.from_bban(x.country_code, x.bban) != x
    except Exception:  # noqa: BLE001
        return True


def c11_bic(rec, obs):
    import schwifty

    s = iso13616.normalise_concrete(_text(rec))
    try:
        x = schwifty.BIC(s)
    except Exception:  # noqa: BLE001
        return False
    parts = (s[0:4], s[4:6], s[6:8], s[8:11])
    got = (x.bank_code, x.country_code, x.location_code, x.branch_code)
    return got != parts or "".join(got) != x.compact or x.compact != s


def _outcome(f):
    try:
        return ("ret", f())
    except Exception as e:  # noqa: BLE001
        return ("exc", type(e).__name__)


def c10_variant(rec, obs):
    """raw text vs its normalised form: same outcome; on success equal objects, equal str/compact, no space/lower"""
    import schwifty

    cls = getattr(schwifty, rec["cls"])
    raw = _text(rec)
    norm = iso13616.normalise_concrete(raw)
    a, b = _outcome(lambda: cls(raw)), _outcome(lambda: cls(norm))
    if a[0] != b[0]:
        return True
    if a[0] == "exc":
        return a[1] != b[1]
    x, y = a[1], b[1]
    if not (x == y) or x != y or str(x) != str(y) or x.compact != norm or hash(x) != hash(y):
        return True
    return any(ch.isspace() or ("a" <= ch <= "z") for ch in x.compact)


def c10_format(rec, obs):
    import schwifty

    cls = getattr(schwifty, rec["cls"])
    s = iso13616.normalise_concrete(_text(rec))
    try:
        x = cls(s)
    except Exception:  # noqa: BLE001
        return False
    if rec["cls"] == "IBAN":
        want = " ".join(s[i : i + 4] for i in range(0, len(s), 4))
    else:
        want = " ".join(p for p in (s[0:4], s[4:6], s[6:8], s[8:11]) if p)
    if x.formatted != want:
        return True
    for form in (x.formatted, str(x), x.compact):
        try:
            if cls(form) != x:
                return True
        except Exception:  # noqa: BLE001
            return True
    return False


def de_method_accepts(method, account):
    """real library: does algorithms['DE:<method>'].validate([account], '') accept (true value) / reject (false or InvalidBBANChecksum)"""
    from schwifty.checksum import algorithms
    from schwifty.exceptions import InvalidBBANChecksum

    try:
        return bool(algorithms[f"DE:{method}"].validate([account], ""))
    except InvalidBBANChecksum:
        return False


def c07_method(rec, obs):
    from spec import bundesbank

    acct = "".join(map(chr, rec["call"]["steps"][0][2][1]["cp"]))
    want, certain = bundesbank.accepts_concrete(rec["method"], acct)
    if obs["outcome"] != "return":
        return True
    return certain and obs["value"] is not want


def de_dispatch(bban):
    """real library with recording stand-ins: (entered keys, outcome) of BBAN('DE', bban).validate_national_checksum()"""
    from schwifty import checksum
    from schwifty.bban import BBAN

    real = dict(checksum.algorithms)
    log = []

    class Rec:
        def __init__(self, key, r):
            self.key, self.accepts, self.name = key, r.accepts, r.name

        def validate(self, components, expected):
            log.append([self.key, list(map(str, components)), str(expected)])
            return True

    try:
        for k, v in real.items():
            if k.startswith("DE:"):
                checksum.algorithms[k] = Rec(k, v)
        try:
            out = BBAN("DE", bban).validate_national_checksum()
            outcome = ["ret", out is True]
        except Exception as e:  # noqa: BLE001
            outcome = ["exc", type(e).__name__]
    finally:
        checksum.algorithms.clear()
        checksum.algorithms.update(real)
    return [log, outcome]


def c07_dispatch(rec, obs):
    from schwifty.checksum import algorithms
    from spec import table

    bban = "".join(map(chr, rec["call"]["steps"][0][2][0]["cp"]))
    if obs["outcome"] != "return":
        return True
    log, outcome = obs["value"]

    def plain(v):
        return "".join(map(chr, v["cp"])) if isinstance(v, dict) and "cp" in v else v

    log = [[plain(k), [plain(x) for x in comps], plain(e)] for k, comps, e in log]
    outcome = [plain(outcome[0]), outcome[1]]
    entry = None
    for e in table.banks():
        if e.get("country_code") == "DE" and e.get("bank_code") == bban[:8]:
            entry = e
            break
    want = None
    if entry is not None:
        name = entry.get("checksum_algo", "default")
        if f"DE:{name}" in algorithms:
            want = f"DE:{name}"
    if want is None:
        return bool(log) or outcome != ["ret", True]
    return not (len(log) == 1 and log[0][0] == want and log[0][1] == [bban[8:]] and log[0][2] == "" and outcome == ["ret", True])


def c07_api(rec, obs):
    import schwifty
    from spec import bundesbank

    s = iso13616.normalise_concrete(_text(rec))
    try:
        schwifty.IBAN(s)
        plain = True
    except Exception:  # noqa: BLE001
        plain = False
    want, certain = bundesbank.accepts_concrete(rec["method"], s[12:])
    got = obs["outcome"] == "return"
    if got and not plain:
        return True
    if not plain:
        return False
    return certain and got != want


def c06_national(rec, obs):
    from spec import national

    cc = rec["cc"]
    bban = "".join(map(chr, rec["call"]["steps"][0][2][1]["cp"]))
    want, certain = national.accepts_concrete(cc, bban)
    if obs["outcome"] == "return":
        return obs["value"] is not True or (certain and not want)
    return not obs["library"] or (certain and want)


def c06_integration(rec, obs):
    import schwifty
    from schwifty.exceptions import SchwiftyException
    from spec import national

    s = iso13616.normalise_concrete(_text(rec))
    cc = rec["cc"]
    r0 = _outcome(lambda: schwifty.IBAN(s))
    r1 = _outcome(lambda: schwifty.IBAN(s, validate_bban=True))
    try:
        obj = schwifty.IBAN(s, allow_invalid=True)
    except Exception:  # noqa: BLE001
        return True
    try:
        r2 = ("ret", obj.bban.validate_national_checksum())
    except SchwiftyException as e:
        r2 = ("exc", type(e).__name__)
    except Exception:  # noqa: BLE001
        return True
    r3 = _outcome(lambda: obj.validate(validate_bban=True))
    ok0, ok1, ok2, ok3 = (r[0] == "ret" for r in (r0, r1, r2, r3))
    if ok1 != (ok0 and ok2) or ok3 != ok1:
        return True
    if cc not in national.COUNTRIES and (not ok2 or ok1 != ok0):
        return True
    if ok2 and r2[1] is not True:
        return True
    if ok0 and not ok1 and r1[1] not in ("InvalidBBANChecksum", "InvalidAccountCode"):
        return True
    return False


def c08_generate(rec, obs):
    """reference check of IBAN.generate(cc, bank, account, branch) on the real library's observed outcome"""
    import schwifty
    from schwifty import exceptions as ex
    from spec import table

    cc, bank, acct, br = [x if isinstance(x, str) else "".join(map(chr, x["cp"])) for x in rec["call"]["steps"][0][2]]
    norm = iso13616.normalise_concrete
    b, a, r = norm(bank), norm(acct), norm(br)
    known = cc in table.countries()
    pos = table.positions(cc) if known else {}
    if obs["outcome"] == "raise":
        if not obs["library"]:
            return True
        if not pos:
            return False
        w = {k: pos.get(k, (0, 0))[1] - pos.get(k, (0, 0))[0] for k in ("bank_code", "branch_code", "account_code")}
        comb = len(b) == w["bank_code"] + w["branch_code"]
        too = []
        if len(b) > w["bank_code"] and not comb:
            too.append("InvalidBankCode")
        if len(r) > w["branch_code"] and not (comb and w["branch_code"]):
            too.append("InvalidBranchCode")
        if len(a) > w["account_code"]:
            too.append("InvalidAccountCode")
        return bool(too) and not any(t in obs["mro"] for t in too)
    if not pos:
        return True
    w = {k: pos.get(k, (0, 0))[1] - pos.get(k, (0, 0))[0] for k in ("bank_code", "branch_code", "account_code")}
    x = schwifty.IBAN("".join(map(chr, obs["value"]["cp"])), allow_invalid=True)
    if not x.is_valid:
        return True
    comb = len(b) == w["bank_code"] + w["branch_code"] and w["branch_code"] > 0
    if comb and r:
        return False  # outside the claim
    if comb:
        want = {"bank_code": b[: w["bank_code"]], "branch_code": b[w["bank_code"] :], "account_code": a.rjust(w["account_code"], "0")}
    else:
        want = {"bank_code": b.rjust(w["bank_code"], "0"), "branch_code": r.rjust(w["branch_code"], "0"), "account_code": a.rjust(w["account_code"], "0")}
    if len(b) > w["bank_code"] and not comb or len(r) > w["branch_code"] and not comb or len(a) > w["account_code"]:
        return True
    return any(getattr(x, k) != v for k, v in want.items())


def c09_build(cc, kw):
    """'ok' iff from_components(cc, **kw) returns a BBAN of the right length whose national check validates, whose
    components read back, and IBAN.generate of the same components validates nationally (library errors from
    from_components itself are allowed: 'ok')"""
    import schwifty
    from schwifty.bban import BBAN
    from schwifty.exceptions import SchwiftyException
    from spec import table

    try:
        x = BBAN.from_components(cc, **kw)
    except SchwiftyException:
        return "ok"
    if len(x) != len(table.classes(cc)):
        return "bad length"
    if x.validate_national_checksum() is not True:
        return "no True"
    for k, v in kw.items():
        if getattr(x, k) != v:
            return "component " + k
    g = schwifty.IBAN.generate(cc, kw.get("bank_code", ""), kw.get("account_code", ""), kw.get("branch_code", ""))
    return "ok" if g.validate(validate_bban=True) is True else "generate"


def c09_rebuild(cc, bban):
    from schwifty.bban import BBAN
    from schwifty.exceptions import SchwiftyException
    from spec import table

    x = BBAN(cc, bban)
    computing = cc in ["BE", "BA", "ES", "FR", "MC", "IT", "SM", "FI", "NO", "PL", "EE", "PT", "RS", "ME", "MK", "SI", "TL", "MR", "TN"]
    if computing:
        try:
            x.validate_national_checksum()
        except SchwiftyException:
            return "ok"
    y = BBAN.from_components(cc, **{k: getattr(x, k) for k in table.COMPONENTS})
    pos = {k: v for k, v in table.positions(cc).items() if v != (0, 0)}
    covered = set()
    for a, e in pos.values():
        covered.update(range(a, e))
    if len(y) != len(x):
        return "length"
    for i in range(len(x)):
        if i in covered and x[i] != y[i]:
            return f"differs at {i}"
        if i not in covered and y[i] != "0":
            return f"filler at {i}"
    return "ok"


def _c16_wrap(kind, s):
    import schwifty
    from schwifty.bban import BBAN

    if kind == "IBAN":
        return schwifty.IBAN(s, allow_invalid=True)
    if kind == "BIC":
        return schwifty.BIC(s, allow_invalid=True)
    if kind == "BBAN":
        return BBAN("DE", s)
    return s


def c16_compare(ka, a, kb, b):
    X, Y = _c16_wrap(ka, a), _c16_wrap(kb, b)
    na = iso13616.normalise_concrete(a) if ka != "str" else a
    nb = iso13616.normalise_concrete(b) if kb != "str" else b
    import operator

    for name in ("eq", "ne", "lt", "le", "gt", "ge"):
        op = getattr(operator, name)
        if op(X, Y) is not op(na, nb):
            return name
    if ka != "str" and hash(X) != hash(na):
        return "hash"
    if ka != "str" and {X: 1}.get(na) != 1:
        return "dict"
    return "ok"


def c16_copies(clsname, text, validate):
    import copy
    import pickle

    import schwifty
    from schwifty.bban import BBAN

    if clsname == "BBAN":
        x = BBAN("DE", text)
    else:
        x = getattr(schwifty, clsname)(text, allow_invalid=not validate)
    for name, f in (("copy", copy.copy), ("deepcopy", copy.deepcopy), ("pickle", lambda o: pickle.loads(pickle.dumps(o)))):
        try:
            y = f(x)
        except Exception as exc:  # a copy that raises is a failed copy, not a failed replay
            return name + " raised " + type(exc).__name__
        if type(y) is not type(x) or y != x or str(y) != str(x):
            return name
        for attr in ("country_code", "bank_code", "branch_code") + (("account_code",) if clsname != "BIC" else ()):
            if _outcome(lambda: getattr(y, attr)) != _outcome(lambda: getattr(x, attr)):
                return name + " " + attr
        if clsname == "IBAN" and (type(y.bban) is not type(x.bban) or y.bban != x.bban or y.bban.country_code != x.bban.country_code):
            return name + " bban"
    return "ok"


def c18_merge(left_json, right_json):
    import copy
    import json

    from schwifty import registry
    from spec import table

    left, right = json.loads(left_json), json.loads(right_json)
    sl, sr = copy.deepcopy(left), copy.deepcopy(right)
    out = registry.merge_dicts(left, right)
    if out != table.deep_merge(sl, sr):
        return "result"
    if left != sl or right != sr:
        return "inputs modified"

    return "ok"


def c18_get(docs_json, order_json):
    """real registry.get on a temporary package directory holding the documents (glob order is the file system's)"""
    import copy
    import json
    import os
    import shutil
    import tempfile

    from schwifty import registry
    from spec import table

    docs = json.loads(docs_json)
    d = tempfile.mkdtemp(prefix="c18_")
    try:
        os.makedirs(os.path.join(d, "stub_registry"))
        for name in json.loads(order_json):
            with open(os.path.join(d, "stub_registry", name), "w") as f:
                json.dump(docs[name], f)
        real = registry.files
        registry.files = lambda pkg: __import__("pathlib").Path(d)
        registry._registry.pop("stub", None)
        try:
            got = registry.get("stub")
        finally:
            registry.files = real
            registry._registry.pop("stub", None)
    finally:
        shutil.rmtree(d, ignore_errors=True)
    data = None
    for name in sorted(docs):
        doc = copy.deepcopy(docs[name])
        if name[: -len(".json")].endswith("v2"):
            out = []
            for e in doc["entries"]:
                base = {k: v for k, v in e.items() if k != doc["expand_from"]}
                base.setdefault("primary", False)
                for v in e[doc["expand_from"]]:
                    out.append({**base, doc["expand_into"]: v})
            doc = out
        if data is None:
            data = doc
        elif isinstance(data, list):
            data = data + doc
        else:
            data = table.deep_merge(data, doc)
    return "ok" if got == data else "differs"


def c17_country(cc):
    """concrete re-check of a country entry on the real objects: 'ok' or the first inconsistency"""
    import re

    from schwifty import checksum, registry
    from spec import table

    spec = registry.get("iban")[cc]
    cls = table.classes(cc)
    n = spec.get("bban_length")
    if cls is None or len(cls) != n:
        return "structure length"
    sample = "".join({"n": "0", "a": "A", "c": "A", "e": " "}[k] for k in cls)
    if not spec["regex"].fullmatch(sample) or spec["regex"].fullmatch(sample + "0") or (sample and spec["regex"].fullmatch(sample[:-1])):
        return "regex length"
    if spec.get("iban_length") != n + 4 or spec["iban_length"] > 34:
        return "iban length"
    pos = {k: tuple(v) for k, v in spec.get("positions", {}).items()}
    rs = sorted(v for v in pos.values() if v != (0, 0))
    if any(not (0 <= a <= b <= n) for a, b in rs) or any(a2 < b1 for (a1, b1), (a2, b2) in zip(rs, rs[1:])):
        return "positions"
    algo = checksum.algorithms.get(f"{cc}:default")
    if algo is not None:
        explicit = any("accepts" in c.__dict__ for c in type(algo).__mro__ if c is not checksum.Algorithm and c is not object)
        defined = {k for k, v in pos.items() if v != (0, 0)}
        if explicit and any(str(c.value) not in defined for c in algo.accepts):
            return "algorithm field"
        if not any(str(c.value) in defined for c in algo.accepts):
            return "algorithm field"
        if type(algo).validate is checksum.Algorithm.validate and "national_checksum_digits" not in defined:
            return "checksum field"
    return "ok"


def c17_bank(cc, code, bic):
    """'ok' iff the code fits the key field, the BIC is empty or valid, and an IBAN built around the code finds a bank with it"""
    import schwifty
    from spec import iso9362, table

    if cc not in table.countries():
        return "country"
    if bic and not iso9362.accepts_concrete(bic):
        return "bic"
    if not code:
        return "ok"
    ref = table.countries()[cc]
    cls = table.classes(cc)
    pos = table.positions(cc)
    idx = []
    for c in ref.get("bic_lookup_components", ["bank_code"]):
        a, b = pos.get(c, (0, 0))
        idx.extend(range(a, b))
    if len(code) != len(idx) or not all(iso13616.char_in_class(ord(ch), cls[j]) for ch, j in zip(code, idx)):
        return "code"
    bban = ["0" if k == "n" else "A" for k in cls]
    for ch, j in zip(code, idx):
        bban[j] = ch
    try:
        x = schwifty.IBAN.from_bban(cc, "".join(bban))
    except Exception as e:  # noqa: BLE001
        return "iban " + type(e).__name__
    return "ok" if x.bank is not None and x.bank["bank_code"] == code else "lookup"


def c15_havoc(m, acct, names, h0, h1):
    """real method object: same account under two different leftovers in the scratch attributes"""
    from schwifty.checksum import algorithms

    algo = algorithms[f"DE:{m}"]
    outs = []
    for hs in (h0, h1):
        for n, v in zip(names, hs):
            setattr(algo, n, v)
        try:
            outs.append(("ret", bool(algo.validate([acct], ""))))
        except Exception as e:  # noqa: BLE001
            outs.append(("exc", type(e).__name__))
    return "ok" if outs[0] == outs[1] else "differs"


def _observe(text):
    import schwifty

    try:
        x = schwifty.IBAN(text)
    except Exception as e:  # noqa: BLE001
        return [("exc", type(e).__name__)]
    return [("ret", str(x))] + [_outcome(lambda a=a: getattr(x, a)) for a in ("bank_code", "branch_code", "account_code", "national_checksum_digits", "bank_name")]


def c15_pair(a, b):
    """fresh evaluation of observe(b) happens in a separate interpreter; here: observe(a) then observe(b)"""
    import json
    import subprocess
    import sys

    code = "import sys, json; sys.path.insert(0, '/verif'); from spec.replay_preds import _observe; print(json.dumps(_observe(sys.argv[1]), default=str))"
    fresh = json.loads(subprocess.run([sys.executable, "-c", code, b], capture_output=True, text=True, env=__import__("os").environ).stdout.strip().splitlines()[-1])
    _observe(a)
    second = json.loads(json.dumps(_observe(b), default=str))
    import copy as _c
    from schwifty import registry

    return "ok" if fresh == second else "differs"


def c15_bic(a, b):
    import json
    import subprocess
    import sys

    import schwifty

    def obs(t):
        try:
            x = schwifty.BIC(t)
        except Exception as e:  # noqa: BLE001
            return [["exc", type(e).__name__]]
        return [["ret", str(x)], x.branch_code, x.country_code]

    code = "import sys, json; import schwifty\ntry:\n x=schwifty.BIC(sys.argv[1]); print(json.dumps([['ret',str(x)],x.branch_code,x.country_code]))\nexcept Exception as e: print(json.dumps([['exc',type(e).__name__]]))"
    fresh = json.loads(subprocess.run([sys.executable, "-c", code, b], capture_output=True, text=True, env=__import__("os").environ).stdout.strip().splitlines()[-1])
    obs(a)
    return "ok" if fresh == obs(b) else "differs"


def _c12_check_pair(BIC, banks, cc, code):
    from schwifty.exceptions import InvalidBankCode
    from spec import registry_ref as R

    idx, bidx = R.by_code(banks), R.by_bic(banks)
    want = R.candidates(idx, cc, code)
    try:
        got = [str(x) for x in BIC.candidates_from_bank_code(cc, code)]
        objs = BIC.candidates_from_bank_code(cc, code)
    except InvalidBankCode:
        got, objs = None, []
    if got != want:
        return "candidates"
    for c in objs:
        if code not in c.domestic_bank_codes or not c.exists:
            return "reverse"
        for attr, key in (("domestic_bank_codes", "bank_code"), ("bank_names", "name"), ("bank_short_names", "short_name")):
            if getattr(c, attr) != R.values_for_bic(bidx, str(c), key):
                return "reverse " + attr
    try:
        ch = str(BIC.from_bank_code(cc, code))
    except InvalidBankCode:
        ch = None
    if not want:
        return None if ch is None else "chosen for empty"
    return None if ch is not None and R.chosen_ok(want, ch) else "chosen"


def c12_registry(banks_json):
    import json

    from schwifty import registry
    from schwifty.bic import BIC

    banks = json.loads(banks_json)
    saved = {n: registry._registry.get(n) for n in ("bank", "bic", "bank_code", "country")}
    try:
        registry.save("bank", [dict(b) for b in banks])
        registry.build_index("bank", index_name="bic", key="bic", accumulate=True)
        registry.build_index("bank", index_name="bank_code", key=("country_code", "bank_code"), accumulate=True)
        for cc in ("DE", "FR"):
            for code in ("1", "2"):
                bad = _c12_check_pair(BIC, banks, cc, code)
                if bad:
                    return bad
    finally:
        for n, v in saved.items():
            if v is not None:
                registry._registry[n] = v
    return "ok"


def c12_iban(cc, bban):
    import schwifty
    from schwifty.bic import BIC
    from spec import registry_ref as R
    from spec import table

    banks = table.banks()
    idx = R.by_code(banks)
    x = schwifty.IBAN.from_bban(cc, bban)
    ref = table.countries()[cc]
    pos = table.positions(cc)
    key = "".join(bban[pos[c][0] : pos[c][1]] for c in ref.get("bic_lookup_components", ["bank_code"]) if c in pos)
    es = idx.get((cc, key))
    if es is None:
        return "ok" if x.bank is None and x.bic is None and x.bank_name is None and x.bank_short_name is None else "unlisted"
    if x.bank != es[0] or x.bank_name != es[0]["name"] or x.bank_short_name != es[0]["short_name"]:
        return "bank"
    want = R.candidates(idx, cc, key)
    if want:
        if x.bic is None or not R.chosen_ok(want, str(x.bic)):
            return "bic"
    elif x.bic is not None:
        return "bic none"
    return _c12_check_pair(BIC, banks, cc, key) or "ok"


def c13_random(cc, use_registry, pins):
    """real IBAN.random over 300 seeds: valid, right country, pins read back, reproducible per seed,
    registry draws (no pinned bank/branch) belong to a listed bank when every entry of the country has a code"""
    from random import Random

    import schwifty
    from schwifty.exceptions import GenerateRandomOverflowError
    from spec import registry_ref as R
    from spec import table

    idx = R.by_code(table.banks(), True)
    for seed in range(300):
        try:
            x = schwifty.IBAN.random(cc, random=Random(seed), use_registry=use_registry, **pins)
            y = schwifty.IBAN.random(cc, random=Random(seed), use_registry=use_registry, **pins)
        except GenerateRandomOverflowError:
            continue
        if x != y:
            return "not reproducible"
        x.validate()
        if cc and x.country_code != cc:
            return "country"
        for k, v in pins.items():
            if getattr(x, k) != v:
                return f"pin {k} seed {seed}"
        c = x.country_code
        entries = [e for e in table.banks() if e.get("country_code") == c]
        if use_registry and entries and all(e.get("bank_code") for e in entries) and not ({"bank_code", "branch_code"} & set(pins)):
            ref = table.countries()[c]
            pos = table.positions(c)
            key = "".join(str(x.bban)[pos[f][0] : pos[f][1]] for f in ref.get("bic_lookup_components", ["bank_code"]) if f in pos)
            if (c, key) not in idx:
                return f"unlisted bank seed {seed}"
    return "ok"


def c16_list(a, b):
    import copy

    import schwifty
    from schwifty.bban import BBAN

    objs = [BBAN("DK", a), BBAN("FI", b), schwifty.BIC(b, allow_invalid=True), schwifty.IBAN(a, allow_invalid=True)]
    ys = copy.deepcopy(objs)
    for x, y in zip(objs, ys):
        if type(x) is not type(y) or x != y or getattr(x, "__dict__", {}).get("country_code") != getattr(y, "__dict__", {}).get("country_code"):
            return "differs"
    return "ok"


def _gen_obs(cc, c):
    import schwifty

    try:
        x = schwifty.IBAN.generate(cc, c.get("bank_code", ""), c.get("account_code", ""), c.get("branch_code", ""))
    except Exception as e:  # noqa: BLE001
        return [["exc", type(e).__name__]]
    return [["ret", str(x)]] + [[getattr(x, a)] for a in ("bank_code", "branch_code", "account_code", "national_checksum_digits")]


def c15_genpair(cca, ca, ccb, cb):
    import json
    import subprocess
    import sys

    code = "import sys, json; sys.path.insert(0, '/verif'); from spec.replay_preds import _gen_obs; print(json.dumps(_gen_obs(sys.argv[1], json.loads(sys.argv[2]))))"
    fresh = json.loads(subprocess.run([sys.executable, "-c", code, ccb, json.dumps(cb)], capture_output=True, text=True, env=__import__("os").environ).stdout.strip().splitlines()[-1])
    _gen_obs(cca, ca)
    return "ok" if fresh == json.loads(json.dumps(_gen_obs(ccb, cb))) else "differs"


def c15_lookup(cc, code, bban):
    """registry rows for the key before and after the look-ups (identity and order)"""
    import schwifty
    from schwifty import registry
    from schwifty.bic import BIC

    rows = registry.get("bank_code").get((cc, code)) or []
    before = [id(e) for e in rows]
    snap = [dict(e) for e in rows]
    try:
        x = schwifty.IBAN.from_bban(cc, bban)
        x.bic, x.bank_name
    except Exception:  # noqa: BLE001
        pass
    for f in (BIC.candidates_from_bank_code, BIC.from_bank_code):
        try:
            f(cc, code)
        except Exception:  # noqa: BLE001
            pass
    rows2 = registry.get("bank_code").get((cc, code)) or []
    return "ok" if [id(e) for e in rows2] == before and [dict(e) for e in rows2] == snap else "registry changed"


def c13_hashseed():
    """real library in fresh interpreters under different PYTHONHASHSEED values: seeded no-country draws must agree"""
    import os
    import subprocess
    import sys

    code = "from random import Random; from schwifty import IBAN; print([str(IBAN.random(random=Random(s))) for s in range(40)])"
    outs = set()
    for hs in ("0", "1", "2", "3", "12345"):
        p = subprocess.run([sys.executable, "-c", code], capture_output=True, text=True, env={**os.environ, "PYTHONHASHSEED": hs})
        outs.add(p.stdout.strip())
    return "ok" if len(outs) == 1 else "differs"
