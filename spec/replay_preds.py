"""Concrete predicates evaluated by replay.py on the real library's observed outcome (no z3 here)."""
import sys

sys.path.insert(0, "/verif")
from spec import iso13616  # noqa: E402


def _text(rec):
    a = rec["call"]["steps"][0][2][0]
    return "".join(map(chr, a["cp"]))


def c01_disagrees(rec, obs):
    """violation reproduces iff real acceptance differs from the concrete ISO 13616 reference on the normalised text"""
    s = iso13616.normalise_concrete(_text(rec))
    want = iso13616.accepts_concrete(s)
    got = obs["outcome"] == "return"
    return want != got


def norm_disagrees(rec, obs):
    want = iso13616.normalise_concrete(_text(rec))
    if obs["outcome"] != "return":
        return True
    return "".join(map(chr, obs["value"]["cp"])) != want
