"""Concrete predicates evaluated by replay.py on the real library's observed outcome (no z3 here)."""
import sys

sys.path.insert(0, "/verif")
from spec import iso13616  # noqa: E402


def _text(rec):
    a = rec["call"]["steps"][0][2][0]
    return "".join(map(chr, a["cp"]))


def c01_disagrees(rec, obs):
    """violation reproduces iff real acceptance differs from the concrete ISO 13616 reference on the normalised text"""
    s = iso13616.normalise_concrete(_text(rec))
    want = iso13616.accepts_concrete(s)
    got = obs["outcome"] == "return"
    return want != got


def norm_disagrees(rec, obs):
    want = iso13616.normalise_concrete(_text(rec))
    if obs["outcome"] != "return":
        return True
    return "".join(map(chr, obs["value"]["cp"])) != want


def c04_disagrees(rec, obs):
    from spec import iso9362

    s = iso13616.normalise_concrete(_text(rec))
    want = iso9362.accepts_concrete(s, bool(rec.get("strict")))
    return want != (obs["outcome"] == "return")


def _entrypoints(cls, text, kw):
    """(constructor outcome, validate outcome, is_valid outcome) on the real library"""
    from schwifty.exceptions import SchwiftyException

    def t(f):
        try:
            return ("ret", f())
        except Exception as e:  # noqa: BLE001
            return ("exc", e)

    r1 = t(lambda: cls(text, **kw))
    try:
        obj = cls(text, allow_invalid=True)
    except Exception as e:  # noqa: BLE001
        return r1, ("exc", e), ("exc", e), SchwiftyException
    r2 = t(lambda: obj.validate(**{k: v for k, v in kw.items() if k != "allow_invalid"}))
    r3 = t(lambda: obj.is_valid)
    return r1, r2, r3, SchwiftyException


def _c05_generic(r1, r2, r3, fam, strict=False):
    if r3[0] == "exc":
        return True
    if not strict and (r3[1] is not (r1[0] == "ret")):
        return True
    if (r2[0] == "ret") != (r1[0] == "ret"):
        return True
    if r2[0] == "ret" and r2[1] is not True:
        return True
    if r1[0] == "exc" and (not isinstance(r1[1], fam) or type(r1[1]) is not type(r2[1])):
        return True
    return False


def c05_iban(rec, obs):
    import schwifty
    from schwifty import exceptions as ex
    from spec import table

    text = _text(rec)
    r1, r2, r3, fam = _entrypoints(schwifty.IBAN, text, {})
    if _c05_generic(r1, r2, r3, fam):
        return True
    if r1[0] == "ret":
        return False
    s = iso13616.normalise_concrete(text)
    e = r1[1]
    cc = s[:2]
    known = cc in table.countries()
    cls = table.classes(cc) if known else None
    right_len = known and cls is not None and len(s) == 4 + len(cls)
    head_ok = len(s) >= 4 and s[0] in iso13616.UPPERS and s[1] in iso13616.UPPERS and s[2] in iso13616.DIGITS and s[3] in iso13616.DIGITS
    if isinstance(e, ex.InvalidCountryCode):
        return known
    if isinstance(e, ex.InvalidLength):
        return right_len
    if isinstance(e, ex.InvalidStructure):
        return head_ok and (not right_len or all(iso13616.char_in_class(ord(c), k) for c, k in zip(s[4:], cls)))
    if isinstance(e, ex.InvalidChecksumDigits):
        return not iso13616.structure_ok_concrete(s) or iso13616.accepts_concrete(s)
    return True


def c05_bic(rec, obs):
    import schwifty
    from schwifty import exceptions as ex
    from spec import iso9362

    text = _text(rec)
    strict = bool(rec.get("strict"))
    kw = {"enforce_swift_compliance": True} if strict else {}
    r1, r2, r3, fam = _entrypoints(schwifty.BIC, text, kw)
    if _c05_generic(r1, r2, r3, fam, strict):
        return True
    if r1[0] == "ret":
        return False
    s = iso13616.normalise_concrete(text)
    e = r1[1]
    if isinstance(e, ex.InvalidLength):
        return len(s) in (8, 11)
    if len(s) not in (8, 11):
        return True
    cls_ok = all(any(lo <= ord(ch) <= hi for lo, hi in rs) for ch, rs in zip(s, iso9362.position_classes(len(s), strict)))
    if isinstance(e, ex.InvalidStructure):
        return cls_ok
    if isinstance(e, ex.InvalidCountryCode):
        return s[4:6] in iso9362.alpha2_codes()
    return True
