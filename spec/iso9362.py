"""ISO 9362 reference: acceptance of a compact BIC string (country set = the installed pycountry alpha-2 codes,
the library's own notion of ISO 3166-1)."""
ALNUM = [[48, 57], [65, 90]]
ALPHA = [[65, 90]]


def position_classes(n, strict):
    """list of range-sets per position for an n-character BIC"""
    first = ALPHA if strict else ALNUM
    cls = [first] * 4 + [ALPHA] * 2 + [ALNUM] * 2
    if n == 11:
        cls += [ALNUM] * 3
    return cls


_codes = None


def alpha2_codes():
    global _codes
    if _codes is None:
        import pycountry

        _codes = sorted(c.alpha_2 for c in pycountry.countries)
    return _codes


def accepts_concrete(s, strict=False):
    if len(s) not in (8, 11):
        return False
    for ch, rs in zip(s, position_classes(len(s), strict)):
        if not any(lo <= ord(ch) <= hi for lo, hi in rs):
            return False
    return s[4:6] in alpha2_codes()
