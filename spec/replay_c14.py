"""Replay of a C14 schedule on the *real* library: the singleton's class gets a temporary subclass whose shared
attributes are data descriptors that hand a baton between real threads in the recorded order."""
import threading


def _run(key, thunks, schedule, names):
    from schwifty.checksum import algorithms

    algo = algorithms[key]
    cv = threading.Condition()
    state = {"i": 0, "cur": schedule[0] if schedule else "T0", "done": set()}
    order = list(schedule)

    def step(me):
        with cv:
            # my access number k in the recorded schedule: wait until it is my turn
            while order and state["i"] < len(order) and order[state["i"]] != me and len(state["done"]) < len(thunks) - 1:
                cv.wait(timeout=5)
                if state.get("abort"):
                    return
            if state["i"] < len(order):
                state["i"] += 1
            cv.notify_all()

    cls = type(algo)

    def make_prop(name):
        def get(self):
            step(threading.current_thread().name)
            return self.__dict__[name]

        def set_(self, v):
            step(threading.current_thread().name)
            self.__dict__[name] = v
            step(threading.current_thread().name)

        return property(get, set_)

    sub = type(cls.__name__ + "Replay", (cls,), {n: make_prop(n) for n in names})
    results = {}

    def body(n, f):
        try:
            results[n] = ("ret", f())
        except Exception as e:  # noqa: BLE001
            results[n] = ("exc", type(e).__name__)
        with cv:
            state["done"].add(n)
            cv.notify_all()

    old = algo.__class__
    algo.__class__ = sub
    try:
        ts = [threading.Thread(target=body, args=(n, f), name=n, daemon=True) for n, f in thunks.items()]
        for t in ts:
            t.start()
        for t in ts:
            t.join(timeout=20)
    finally:
        state["abort"] = True
        algo.__class__ = old
    return results


def _thunks(rec):
    from schwifty.checksum import algorithms

    key = rec["key"]
    if "ibans" in rec:
        import schwifty

        return {f"T{i}": (lambda s=s: str(schwifty.IBAN(s, validate_bban=True))) for i, s in enumerate(rec["ibans"])}
    algo = algorithms[key]
    return {f"T{i}": (lambda a=a: bool(algo.validate([a], ""))) for i, a in enumerate(rec["accounts"])}


def _solo(rec):
    out = {}
    for n, f in _thunks(rec).items():
        try:
            out[n] = ("ret", f())
        except Exception as e:  # noqa: BLE001
            out[n] = ("exc", type(e).__name__)
    return out


def replay(rec):
    """violation reproduces iff, under the recorded schedule, some thread's outcome differs from its solo outcome"""
    solo = _solo(rec)
    conc = _run(rec["key"], _thunks(rec), rec["schedule"], ["remainder", "weighted_sum"])
    differs = any(solo[n] != conc.get(n) for n in solo)
    return {"reproduced": bool(differs), "observed": {"solo": solo, "concurrent": conc}}


def replay_witness(rec):
    solo = _solo(rec)
    conc = _run(rec["key"], _thunks(rec), rec["schedule"], ["remainder", "weighted_sum"])
    return {"reproduced": all(solo[n] == conc.get(n) for n in solo), "observed": {"solo": solo, "concurrent": conc}}


def _adversary_run(rec):
    """real library: before each read / after each write of the caller to a shared attribute another real thread
    stores the recorded value.  rec["writes"] = [kind, attribute, value, owner] with owner "algo" (the method object) or
    the name of the class attribute holding the shared object (e.g. "positions")"""
    import inspect

    from schwifty.checksum import algorithms

    algo = algorithms[rec["key"]]
    main = threading.current_thread()
    writes = [w + ["algo"] if len(w) == 3 else w for w in rec["writes"]]

    def poke(obj, name):
        if threading.current_thread() is not main or not writes:
            return
        kind, n, v, owner = writes.pop(0)
        t = threading.Thread(target=lambda: setattr(obj, name, v))
        t.start()
        t.join()

    def make_prop(cls, name):
        static = inspect.getattr_static(cls, name, None)
        has_desc = hasattr(static, "__get__") and hasattr(static, "__set__")  # e.g. a slot

        def get(self):
            poke(self, name)
            return static.__get__(self, type(self)) if has_desc else self.__dict__[name]

        def set_(self, v):
            if has_desc:
                static.__set__(self, v)
            else:
                self.__dict__[name] = v
            poke(self, name)

        return property(get, set_)

    by_owner = {}
    for _, n, _, owner in writes:
        by_owner.setdefault(owner, set()).add(n)
    patched = []
    for owner, names in by_owner.items():
        obj = algo if owner == "algo" else getattr(algo, owner)
        cls = type(obj)
        sub = type(cls.__name__ + "Replay", (cls,), {n: make_prop(cls, n) for n in names})
        patched.append((obj, cls))
        obj.__class__ = sub

    def call():
        try:
            if rec["account"].startswith("DE"):
                import schwifty

                return ("ret", str(schwifty.IBAN(rec["account"], validate_bban=True)))
            return ("ret", bool(algo.validate([rec["account"]], "")))
        except Exception as e:  # noqa: BLE001
            return ("exc", type(e).__name__)

    saved = list(writes)
    try:
        conc = call()
    finally:
        for obj, cls in patched:
            obj.__class__ = cls
    writes[:] = []
    solo = call()
    return solo, conc


def replay_adversary(rec):
    solo, conc = _adversary_run(rec)
    return {"reproduced": solo != conc, "observed": {"solo": solo, "with_adversary": conc}}


def replay_adversary_witness(rec):
    solo, conc = _adversary_run(rec)
    return {"reproduced": solo == conc, "observed": {"solo": solo, "with_adversary": conc}}
