"""Reference view of the bundled data, read independently of schwifty.registry (own merge, own tokenizer)."""
import json
import os
import re


def root():
    return os.path.join(os.environ.get("SX_ROOT", "/repo"), "schwifty")


def deep_merge(left, right):
    """right-biased deep merge (reference semantics for C18): dict+dict merges recursively, otherwise right wins"""
    out = dict(left)
    for k, v in right.items():
        if k in out and isinstance(out[k], dict) and isinstance(v, dict):
            out[k] = deep_merge(out[k], v)
        else:
            out[k] = v
    return out


def _files(name):
    d = os.path.join(root(), f"{name}_registry")
    return [os.path.join(d, f) for f in sorted(os.listdir(d)) if f.endswith(".json")]


_cache = {}


def countries():
    """effective country table: deep later-wins merge of the iban_registry files in file-name order"""
    if "iban" not in _cache:
        data = {}
        for f in _files("iban"):
            with open(f, encoding="utf-8") as fp:
                data = deep_merge(data, json.load(fp))
        _cache["iban"] = data
    return _cache["iban"]


def banks():
    """effective bank list: concatenation in file-name order; v2 files expanded per listed code"""
    if "bank" not in _cache:
        out = []
        for f in _files("bank"):
            with open(f, encoding="utf-8") as fp:
                doc = json.load(fp)
            if os.path.basename(f)[: -len(".json")].endswith("v2"):
                src, dst = doc["expand_from"], doc["expand_into"]
                for e in doc["entries"]:
                    base = {k: v for k, v in e.items() if k != src}
                    base.setdefault("primary", False)
                    for v in e[src]:
                        out.append({**base, dst: v})
            else:
                out.extend(doc)
        _cache["bank"] = out
    return _cache["bank"]


TOKEN = re.compile(r"(\d+)(!?)([nace])")


def structure(bban_spec):
    """list of (min_len, max_len, class) tokens; raises if the string is not fully tokenised"""
    toks, pos = [], 0
    for m in TOKEN.finditer(bban_spec):
        if m.start() != pos:
            raise ValueError(f"untokenisable structure string {bban_spec!r}")
        n = int(m.group(1))
        toks.append((n if m.group(2) else 1, n, m.group(3)))
        pos = m.end()
    if pos != len(bban_spec):
        raise ValueError(f"untokenisable structure string {bban_spec!r}")
    return toks


def classes(cc):
    """per-position class string of a country's BBAN ('n', 'a', 'c', 'e'), or None if a token is variable-length"""
    toks = structure(countries()[cc]["bban_spec"])
    if any(lo != hi for lo, hi, _ in toks):
        return None
    return "".join(k * hi for lo, hi, k in toks)


def positions(cc):
    return {k: tuple(v) for k, v in countries()[cc].get("positions", {}).items()}


COMPONENTS = [
    "account_id",
    "account_type",
    "account_code",
    "account_holder_id",
    "currency_code",
    "bank_code",
    "branch_code",
    "national_checksum_digits",
]


def signature(cc):
    e = countries()[cc]
    return json.dumps(
        [e.get("bban_spec"), e.get("bban_length"), e.get("iban_length"), e.get("positions"), e.get("bic_lookup_components")],
        sort_keys=True,
    )
