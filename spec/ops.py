"""Dual-use logical operators: the reference specifications run on z3 terms (in the engine) and on Python values
(in replay / validation against the repository's own test vectors)."""
try:
    import z3
except ImportError:  # replay runs under /venv/bin/python without z3
    z3 = None


def _sym(*xs):
    return z3 is not None and any(isinstance(x, z3.ExprRef) for x in xs)


def AND(*xs):
    xs = [x for x in xs]
    if _sym(*xs):
        return z3.And([x if isinstance(x, z3.ExprRef) else z3.BoolVal(bool(x)) for x in xs])
    return all(xs)


def OR(*xs):
    if _sym(*xs):
        return z3.Or([x if isinstance(x, z3.ExprRef) else z3.BoolVal(bool(x)) for x in xs])
    return any(xs)


def NOT(x):
    if _sym(x):
        return z3.Not(x)
    return not x


def IF(c, a, b):
    if _sym(c):
        return z3.If(c, a, b)
    if _sym(a, b):
        return a if c else b
    return a if c else b


def IMPLIES(a, b):
    return OR(NOT(a), b)


def EQ(a, b):
    return a == b


def IN(x, values):
    return OR(*[x == v for v in values]) if values else False


def BETWEEN(x, lo, hi):
    return AND(x >= lo, x <= hi)


def SUM(xs):
    t = 0
    for x in xs:
        t = t + x
    return t
