"""C18 - registry files compose in name order: deep later-wins merge, list concatenation.

A (merge_dicts): left and right are real nested dicts whose shape is chosen by engine forks (every key of the pool
   absent / leaf / nested dict, bounded depth), leaves are distinct symbolic integers, and the iteration order of
   the frozenset inside merge_dicts is a fork.  On every path: result == reference deep right-biased merge, both
   inputs still equal their snapshots, no merged nested dict is shared with an input.
B (registry.get): the registry directory is replaced by a stub whose glob returns 1-3 stub files in a fork-chosen
   order; file names come from a pool (incl. a '.v2.json' name), contents are dict documents (shapes as in A) or
   list documents / v2 documents of <= 2 entries.  The real get / parse_v2 / merge_dicts / save run on them:
   dict registry == left fold of the reference merge in sorted-name order; list registry == concatenation in
   sorted-name order with v2 files expanded to one entry per listed code ('primary' defaulting to False)."""
import copy
import io
import itertools
import json
import pathlib

import z3

from harness import common as H
from spec import table
from sx import rt
from sx.core import ctx

BOUNDS = {"quick": {"A": "operand shapes over key pools per level [ab,ab], [a,a,ab] and [ab,a,a] (every key absent / leaf / nested), every frozenset iteration order", "B": "1..3 files from the pool {a.json, a-x.json, b.json, c.v2.json}, every glob order; dict documents over keys {a,b}: nested one level for 1-2 files, flat for 3 files; list documents and v2 documents of <= 2 entries x <= 2 codes"},
          "thorough": {"A": "key pools per level [abc,ab], [ab,ab,a], [a,ab,ab], [a,a,a,ab]", "B": "as quick, single dict documents nested two levels"}}
STUBS = ["importlib.resources.files / Path.glob / Path.open replaced by in-memory stub paths (json.load runs for real on the generated text)", "frozenset iteration order = fork"]
ASSUMPTIONS = ["leaves are opaque to the code under test (it never inspects them); the exhaustive part is the shape tree, the solver only decides leaf identity",
               "overlay files taking effect in validation is shown by C01..C11 reading the same files through the reference merge (SX_ROOT / edited data are re-read on every run)"]
MAXTASKS = 8
JOB_BUDGET_S = 3000


def jobs(tier, seed):
    """A-jobs: `levels` = key pool per nesting level of both operands"""
    out = []
    pins = [[x, y] for x in range(3) for y in range(3)]
    if tier == "thorough":
        for p in pins:
            out.append({"kind": "A", "levels": ["abc", "ab"], "pin": p})
        for p in pins:
            for q in range(3):
                out.append({"kind": "A", "levels": ["ab", "ab", "a"], "pin": p + [q]})
        out.append({"kind": "A", "levels": ["a", "ab", "ab"], "pin": []})
        out.append({"kind": "A", "levels": ["a", "a", "a", "ab"], "pin": []})
    else:
        out.append({"kind": "A", "levels": ["ab", "ab"], "pin": []})
        out.append({"kind": "A", "levels": ["a", "a", "ab"], "pin": []})
        for p in pins:
            out.append({"kind": "A", "levels": ["ab", "a", "a"], "pin": p})
    for n in (1, 2, 3):
        for kind in ("dict", "list"):
            out.append({"kind": "B", "n": n, "doc": kind, "depth": (1 if n < 3 else 0) + (1 if tier == "thorough" and n == 1 else 0)})
    return out


class Gen:
    """shape generator driven by engine forks"""

    def __init__(self, pin=()):
        self.n = 0
        self.pin = list(pin)

    def pick(self, n):
        """next shape decision: pinned by the job (work splitting) or an engine fork"""
        if self.pin:
            c = self.pin.pop(0)
            if c >= n:
                raise rt.PathAbort("pinned choice not available here")
            return c
        return ctx.choose_free(n)

    def leaf(self):
        self.n += 1
        return rt.SymInt(rt.fresh_int(f"leaf{self.n}", -10**6, 10**6))

    def dict_(self, levels):
        d = {}
        for k in levels[0]:
            c = self.pick(3 if len(levels) > 1 else 2)
            if c == 0:
                continue
            if c == 1:
                d[k] = self.leaf()
            else:
                d[k] = self.dict_(levels[1:])
        return d


def same(a, b):
    """structural equality with leaf identity (z3 term identity)"""
    if isinstance(a, dict) or isinstance(b, dict):
        if not (isinstance(a, dict) and isinstance(b, dict)) or list(a.keys()) != list(b.keys()) and set(a) != set(b):
            return False
        return set(a) == set(b) and all(same(a[k], b[k]) for k in a)
    if isinstance(a, list) or isinstance(b, list):
        return isinstance(a, list) and isinstance(b, list) and len(a) == len(b) and all(same(x, y) for x, y in zip(a, b))
    if isinstance(a, rt.SymInt) or isinstance(b, rt.SymInt):
        return isinstance(a, rt.SymInt) and isinstance(b, rt.SymInt) and z3.eq(a.e, b.e)
    return type(a) is type(b) and a == b


def snap(d):
    if isinstance(d, dict):
        return {k: snap(v) for k, v in d.items()}
    if isinstance(d, list):
        return [snap(v) for v in d]
    return d


def dicts_in(d, acc):
    if isinstance(d, dict):
        acc.append(d)
        for v in d.values():
            dicts_in(v, acc)
    return acc


def conc(d, m):
    if isinstance(d, dict):
        return {k: conc(v, m) for k, v in d.items()}
    if isinstance(d, list):
        return [conc(v, m) for v in d]
    if isinstance(d, rt.SymInt):
        return m.eval(d.e, model_completion=True).as_long()
    return d


def run_job(job, res):
    if job["kind"] == "A":
        run_merge(job, res)
    else:
        run_get(job, res)


def run_merge(job, res):
    from schwifty import registry

    rt.SET_ORDER["fork"] = True
    holder = {}
    def fn():
        g = Gen(job["pin"])  # the first shape decisions are pinned per job (splits the shape tree over the workers)
        left = g.dict_(job["levels"])
        right = g.dict_(job["levels"])
        holder.update(left=left, right=right, sl=snap(left), sr=snap(right))
        return registry.merge_dicts(left, right)

    def on_path(out):
        left, right = holder["left"], holder["right"]
        res["obligations"] += 3
        bad = None
        if out[0] == "exc":
            bad = f"merge_dicts raised {type(out[1]).__name__}"
        else:
            want = table.deep_merge(holder["sl"], holder["sr"])
            if not same(out[1], want):
                bad = "result differs from the deep later-wins merge"
            elif not same(left, holder["sl"]) or not same(right, holder["sr"]):
                bad = "an input dictionary was modified"
        if bad:
            if not ctx.final():
                return
            m = ctx.model()
            res["violations"].append({"property": "C18", "what": f"merge_dicts: {bad}", "mode": "violation",
                                      "call": {"steps": [["call", "spec.replay_preds.c18_merge", [json.dumps(conc(holder["sl"], m)), json.dumps(conc(holder["sr"], m))], {}]]},
                                      "pred": {"kind": "value_is_not", "value": {"cp": [111, 107]}}, "engine": H.outcome_of(out)})
        elif "w" not in holder and (holder["sl"] and holder["sr"]) and ctx.witness():
            holder["w"] = 1
            m = ctx.model()
            res["witnesses"].append({"property": "C18", "what": "merge_dicts", "mode": "witness", "engine": {"outcome": "return", "value": {"cp": [111, 107]}},
                                     "call": {"steps": [["call", "spec.replay_preds.c18_merge", [json.dumps(conc(holder["sl"], m)), json.dumps(conc(holder["sr"], m))], {}]]}})

    try:
        rt.explore(fn, on_path)
    finally:
        rt.SET_ORDER["fork"] = False


class StubPath(pathlib.PurePosixPath):
    """in-memory stand-in for the registry directory and its files (sorting and .stem are the real pathlib ones)"""

    _files = {}
    _order = []

    def glob(self, pattern):
        assert pattern == "*.json"
        return [StubPath(str(self), n) for n in StubPath._order]

    def open(self, *a, **k):
        return io.StringIO(StubPath._files[self.name])


POOL = ["a.json", "a-x.json", "b.json", "c.v2.json"]  # "a-x.json" < "a.json" by name but not by stem


def run_get(job, res):
    from schwifty import registry

    n, kind, depth = job["n"], job["doc"], job["depth"]
    holder = {}
    real_files, real_path = registry.files, registry.Path
    rt.SET_ORDER["fork"] = True

    def gen_list_doc(g, v2):
        k = 1 + ctx.choose_free(2)
        if v2:
            entries = []
            for i in range(k):
                e = {"name": f"n{g.n}{i}", "bank_codes": [f"c{i}{j}" for j in range(1 + ctx.choose_free(2))]}
                if ctx.choose_free(2):
                    e["primary"] = True
                entries.append(e)
            return {"expand_from": "bank_codes", "expand_into": "bank_code", "entries": entries}
        g.n += 1
        return [{"name": f"e{g.n}{i}", "bank_code": f"x{g.n}{i}", "primary": bool(ctx.choose_free(2))} for i in range(k)]

    def fn():
        g = Gen()
        names = list(itertools.combinations(POOL if kind == "list" else [p for p in POOL if ".v2." not in p], n))
        chosen = names[ctx.choose_free(len(names))]
        perms = list(itertools.permutations(chosen))
        order = perms[ctx.choose_free(len(perms))]
        docs = {}
        for name in chosen:
            if kind == "dict":
                d = g.dict_(["ab"] * (depth + 1))
                # documents are JSON: leaves become distinct concrete integers
                cnt = itertools.count(1)

                def fix(x):
                    return {k: fix(v) for k, v in x.items()} if isinstance(x, dict) else 1000 * (POOL.index(name) + 1) + next(cnt)

                docs[name] = fix(d)
            else:
                docs[name] = gen_list_doc(g, ".v2." in name)
        StubPath._files = {k: json.dumps(v) for k, v in docs.items()}
        StubPath._order = list(order)
        holder.update(docs=docs, order=order)
        registry._registry.pop("stub", None)
        registry.files = lambda pkg: StubPath("/stub")
        registry.Path = StubPath
        try:
            return registry.get("stub")
        finally:
            registry.files, registry.Path = real_files, real_path
            registry._registry.pop("stub", None)

    def reference(docs):
        data = None
        for name in sorted(docs):
            doc = copy.deepcopy(docs[name])
            if name[: -len(".json")].endswith("v2"):
                out = []
                for e in doc["entries"]:
                    base = {k: v for k, v in e.items() if k != doc["expand_from"]}
                    base.setdefault("primary", False)
                    for v in e[doc["expand_from"]]:
                        out.append({**base, doc["expand_into"]: v})
                doc = out
            if data is None:
                data = doc
            elif isinstance(data, list):
                data = data + doc
            else:
                data = table.deep_merge(data, doc)
        return data

    def on_path(out):
        res["obligations"] += 1
        docs = holder["docs"]
        bad = None
        if out[0] == "exc":
            bad = f"registry.get raised {type(out[1]).__name__}"
        else:
            want = reference(docs)
            if out[1] != want:
                bad = "effective registry differs from composing the files in file-name order"
        rec = {"property": "C18", "mode": "violation" if bad else "witness",
               "call": {"steps": [["call", "spec.replay_preds.c18_get", [json.dumps(docs), json.dumps(list(holder["order"]))], {}]]}}
        if bad:
            rec.update(what=f"registry.get: {bad}", pred={"kind": "value_is_not", "value": {"cp": [111, 107]}}, engine=H.outcome_of(out))
            res["violations"].append(rec)
        elif holder.get("w", 0) < 3:
            holder["w"] = holder.get("w", 0) + 1
            rec.update(what="registry.get over stub files", engine={"outcome": "return", "value": {"cp": [111, 107]}})
            res["witnesses"].append(rec)

    try:
        rt.explore(fn, on_path)
    finally:
        rt.SET_ORDER["fork"] = False
        registry.files, registry.Path = real_files, real_path
