"""C06 - national check digits are judged by the country's published algorithm.

N (national rule): per country of the 22, BBAN(cc, b).validate_national_checksum() runs on a symbolic BBAN b ranging
   over all structure-conforming BBANs; "returns True" / "raises" is proved equivalent to the reference rule
   (spec/national.py); success must be reported as True, failure by raising a library error.
I (integration): per country (the 22 and others), IBAN(w), IBAN(w, validate_bban=True), validate(validate_bban=True)
   and bban.validate_national_checksum() run in one path on a symbolic w, with the country's algorithm object replaced
   by a stand-in whose verdict is one free symbolic Boolean (its real body is decided in N): national validation
   accepts iff plain validation accepts and the algorithm's verdict is true, the algorithm is consulted, and for
   countries without a national algorithm nothing changes."""
import random

import z3

from harness import common as H
from harness.c02 import H_try, bban_chars
from spec import national, table
from sx import rt
from sx.core import ctx
from sx.values import SymBool

BOUNDS = {"quick": {"N": "22 countries x all structure-conforming BBANs (IT/SM: account kind patterns with <= 1 letter, all-letter pattern, 12 seeded patterns)", "I": "the 22 countries + 10 seeded others, all IBAN texts over the structure classes"},
          "thorough": {"N": "22 countries x all structure-conforming BBANs (IT/SM: all 4096 account kind patterns)", "I": "all countries except DE (DE: C07)"}}
STUBS = ["bank registry look-up by symbolic key: merged alternatives (sx.rt.Merged)", "int/str/zip/cycle/reversed/enumerate models", "as C01"]
ASSUMPTIONS = ["references transcribed from the published national rules; uncertain clause excluded: " + "; ".join(f"{k}: {v}" for k, v in national.UNCERTAIN.items()),
               "non-German registry entries carry no checksum_algo (checked on the bundled data at run start)"]
MAXTASKS = 30


def it_patterns(tier, seed):
    if tier == "thorough":
        return list(range(4096))
    rnd = random.Random(seed)
    pats = {0, 4095} | {1 << i for i in range(12)} | {rnd.randrange(4096) for _ in range(12)}
    return sorted(pats)


def jobs(tier, seed):
    out = []
    for cc in national.COUNTRIES:
        if cc in ("IT", "SM"):
            pats = it_patterns(tier, seed)
            for i in range(0, len(pats), 64):
                out.append({"kind": "N", "cc": cc, "pats": pats[i : i + 64]})
        else:
            out.append({"kind": "N", "cc": cc})
    others = [c for c in sorted(table.countries()) if c not in national.COUNTRIES and c != "DE"]
    if tier != "thorough":
        others = random.Random(seed).sample(others, 10)
    for cc in national.COUNTRIES + others:
        out.append({"kind": "I", "cc": cc})
    return out


def prepare(tier, seed):
    bad = [e for e in table.banks() if e.get("country_code") != "DE" and "checksum_algo" in e]
    if bad:
        raise rt.Unmodelled(f"non-German bank entry with checksum_algo: {bad[0]}")
    return {}


_SEGS = {}


def _char_lookup(src, tab):
    """value of a character under a char -> small int table, in the canonical form the engine's own models produce for
    'look the character up in a str -> str table, then int()': code-point table first, digit value second"""
    e = rt.prune_ite(rt.seg_lookup(src.term, _segs(tab)))
    r = rt.models.model_int(rt.mkstr([e]))
    return r.e if isinstance(r, rt.SymInt) else z3.IntVal(r)



def _segs(tab):
    k = id(tab)
    if k not in _SEGS:
        _SEGS[k] = rt.segments({ord(c): 48 + v for c, v in tab.items()})
    return _SEGS[k]


def char_value(c, k):
    """reference character value of a PChar of structure class k"""
    if k == "n":
        return ("d", c.vars[0], c)
    if k == "a":
        return ("a", c.vars[0], c)
    return ("c", c.guards[0], c.vars[0], c.vars[1], c)


def fields(cc, chars, cls):
    out = {}
    pos = table.positions(cc)
    for comp in table.COMPONENTS:
        a, b = pos.get(comp, (0, 0))
        out[comp] = [char_value(c, k) for c, k in zip(chars[a:b], cls[a:b])]
    return out


def zbool(x):
    return x if not isinstance(x, bool) else z3.BoolVal(x)


def run_job(job, res):
    national.NUMERIC = H.spec_numeric
    national.CHAR_LOOKUP = _char_lookup
    national.LIST_LOOKUP = lambda lst, idx: rt.zi(rt.getitem(lst, rt.SymInt(idx)))
    if job["kind"] == "N":
        if "pats" in job:
            for p in job["pats"]:
                run_national(job["cc"], res, p)
        else:
            run_national(job["cc"], res, None)
    else:
        run_integration(job["cc"], res)


def run_national(cc, res, pattern):
    cls = table.classes(cc)
    ref = national.REFS[cc]
    holder, seen = {}, set()

    def fn():
        from schwifty.bban import BBAN

        b = bban_chars(cls)
        if pattern is not None:
            a0, _ = table.positions(cc)["account_code"]
            for i in range(12):
                c = b[a0 + i]
                ctx.add(c.guards[0] if not (pattern >> i) & 1 else z3.Not(c.guards[0]))
        holder["b"] = b
        return BBAN(cc, H.symstr(b)).validate_national_checksum()

    def on_path(out):
        from schwifty.exceptions import SchwiftyException

        b = holder["b"]
        res["obligations"] += 1
        want, certain = ref(fields(cc, b, cls))
        bad = None
        if out[0] == "ret":
            v = out[1]
            if isinstance(v, SymBool) or v is not True:
                bad = ("value", f"success reported as {v!r} instead of True") if ctx.final() else None
            elif ctx.final(z3.And(zbool(certain), z3.Not(zbool(want)))):
                bad = ("accept", "national check digits accepted although the published rule rejects them")
        elif not isinstance(out[1], SchwiftyException):
            bad = ("exc", f"non-library exception {type(out[1]).__name__}") if ctx.final() else None
        elif ctx.final(z3.And(zbool(certain), zbool(want))):
            bad = ("reject", f"rejected ({type(out[1]).__name__}) although the published rule accepts")
        if bad:
            cps = H.model_cps(ctx.model(), b)
            res["violations"].append({"property": "C06", "what": f"{cc}: {bad[1]}", "mode": "violation", "cc": cc,
                                      "call": {"steps": [["call", "schwifty.bban.BBAN", [cc, H.cp_enc(cps)], {}], ["method", "validate_national_checksum"]]},
                                      "pred": {"kind": "custom", "module": "spec.replay_preds", "func": "c06_national"}, "engine": H.outcome_of(out)})
            return
        kind = "accept" if out[0] == "ret" else type(out[1]).__name__
        if kind not in seen and ctx.witness():
            seen.add(kind)
            cps = H.model_cps(ctx.model(), b)
            eng = {"outcome": "return", "value": True} if out[0] == "ret" else H.outcome_of(out)
            res["witnesses"].append({"property": "C06", "what": f"{cc} national {kind}", "mode": "witness", "engine": eng,
                                     "call": {"steps": [["call", "schwifty.bban.BBAN", [cc, H.cp_enc(cps)], {}], ["method", "validate_national_checksum"]]}})

    rt.explore(fn, on_path)


def run_integration(cc, res):
    """two input families: (valid) check digits defined as the reference digits of the symbolic BBAN, so plain
    validation holds by construction and the national verdict is the only free fact; (invalid) free check digits
    constrained to differ from the reference digits, so plain validation fails and national validation must fail alike"""
    for mode in ("valid", "invalid"):
        _run_integration(cc, res, mode)


class Verdict:
    """stand-in for a country's algorithm object in the integration harness: the national rule itself is decided in
    the N jobs; here its verdict is one free symbolic Boolean per path"""

    def __init__(self, real):
        self.real = real
        self.accepts = real.accepts
        self.name = getattr(real, "name", "default")
        self.v = None
        self.calls = 0

    def validate(self, components, expected):
        self.calls += 1
        if self.v is None:
            self.v = rt.fresh_bool("national_verdict")
        return SymBool(self.v)

    def compute(self, components):
        raise rt.Unmodelled("compute() reached in the integration harness")


def _run_integration(cc, res, mode):
    from schwifty import checksum
    from sx.values import Dec

    cls = table.classes(cc)
    has_algo = cc in national.COUNTRIES
    holder, seen = {}, set()
    real_algo = checksum.algorithms.get(f"{cc}:default")
    stub = Verdict(real_algo) if real_algo is not None else None

    def fn():
        from schwifty import IBAN

        b = bban_chars(cls)
        if cc in ("IT", "SM"):
            a0, _ = table.positions(cc)["account_code"]
            for i in range(12):  # integration does not depend on the kinds; keep the account numeric here
                ctx.add(b[a0 + i].guards[0])
        if stub is not None:
            stub.v, stub.calls = None, 0
        X = H.spec_numeric(b + [ord(cc[0]), ord(cc[1])])
        v = 98 - (X * 100) % 97
        if mode == "valid":
            dd = [Dec(z3.simplify(v), 2, 2)]
            holder["dd"] = ("dec", z3.simplify(v))
        else:
            d0, d1 = rt.digit_char("dd0"), rt.digit_char("dd1")
            ctx.assume(d0.vars[0] * 10 + d1.vars[0] != v)
            dd = [d0.term, d1.term]
            holder["dd"] = ("chars", [d0, d1])
        holder["b"] = b
        w = rt.mkstr([ord(cc[0]), ord(cc[1])] + dd + [c.term for c in b])
        r0 = H_try(lambda: IBAN(w))
        r1 = H_try(lambda: IBAN(w, validate_bban=True))
        obj = IBAN(w, allow_invalid=True)
        r2 = H_try(lambda: obj.bban.validate_national_checksum())
        r3 = H_try(lambda: obj.validate(validate_bban=True))
        return r0, r1, r2, r3

    def text(m):
        b = H.model_cps(m, holder["b"])
        if holder["dd"][0] == "dec":
            v = m.eval(holder["dd"][1], model_completion=True).as_long()
            dd = [48 + v // 10, 48 + v % 10]
        else:
            dd = H.model_cps(m, holder["dd"][1])
        return [ord(cc[0]), ord(cc[1])] + dd + b

    def on_path(out):
        from schwifty.exceptions import SchwiftyException

        res["obligations"] += 1
        if out[0] == "exc":
            bad = f"IBAN(w, allow_invalid=True) raised {type(out[1]).__name__}"
            r1 = out
        else:
            r0, r1, r2, r3 = out[1]
            ok0, ok1, ok2, ok3 = (r[0] == "ret" for r in (r0, r1, r2, r3))
            bad = None
            if mode == "valid" and not ok0:
                bad = f"IBAN with reference check digits rejected ({type(r0[1]).__name__})"
            elif mode == "invalid" and ok0:
                bad = "IBAN with wrong check digits accepted"
            elif ok1 != (ok0 and ok2):
                bad = f"national validation {'accepts' if ok1 else 'rejects'} while plain validation {'accepts' if ok0 else 'rejects'} and the BBAN-level check {'succeeds' if ok2 else 'fails'}"
            elif ok3 != ok1:
                bad = "iban.validate(validate_bban=True) disagrees with the constructor"
            elif not has_algo and (not ok2 or ok1 != ok0):
                bad = "national validation changes the verdict for a country without a national algorithm"
            elif has_algo and ok0 and stub.calls == 0:
                bad = "the country's national algorithm was not consulted"
            elif ok2 and r2[1] is not True:
                bad = f"BBAN-level success reported as {r2[1]!r}"
            elif not ok1 and not isinstance(r1[1], SchwiftyException):
                bad = f"non-library exception {type(r1[1]).__name__}"
            elif ok0 and not ok1 and type(r1[1]).__name__ not in ("InvalidBBANChecksum", "InvalidAccountCode"):
                bad = f"national failure reported as {type(r1[1]).__name__}"
            elif not ok0 and type(r1[1]) is not type(r0[1]):
                bad = f"plain validation fails with {type(r0[1]).__name__}, national validation with {type(r1[1]).__name__}"
        if bad:
            if not ctx.final():
                return
            cps = text(ctx.model())
            res["violations"].append({"property": "C06", "what": f"{cc}: {bad}", "mode": "violation", "cc": cc, "call": H.iban_call(cps, validate_bban=True),
                                      "pred": {"kind": "custom", "module": "spec.replay_preds", "func": "c06_integration"}, "engine": H.outcome_of(r1)})
            return
        # no witness replay here: the algorithm's verdict is a free Boolean in this harness, so a model of the path
        # does not determine what the real algorithm says about the concrete text (the N jobs carry the witnesses)

    if stub is not None:
        checksum.algorithms[f"{cc}:default"] = stub
    try:
        rt.explore(fn, on_path)
    finally:
        if stub is not None:
            checksum.algorithms[f"{cc}:default"] = real_algo
