"""C14 - concurrent use gives every caller the answer it would get alone.

The shared mutable state of the library is found by a write monitor (attribute writes on objects that exist before
the calls start).  For each algorithm singleton that is written at call time, two logical threads call
validate([a_i], '') with independent symbolic account numbers; they run as real threads under a baton scheduler whose
switch points are the reads and writes of the shared locations, and whose choices are engine forks, so every
schedule at that granularity is enumerated.  Per schedule and path the solver compares each thread's outcome with
the outcome of the same call run alone on the same symbolic input.  The same is done through the public API
(IBAN(..., validate_bban=True) for two banks of the same method)."""
import z3

from harness import common as H
from harness.c02 import H_try
from harness.c07 import accepts_term, de_banks, digits10, registered
from sx import rt, sched
from sx.core import ctx
from sx.values import SymBool

BOUNDS = {"quick": {"threads": 2, "calls": "every registered German method object: one caller (all accounts) against an adversary thread that overwrites each shared location with any value 0..10 before each of the caller's accesses; additionally two real logical threads validate x validate with two symbolic accounts (all schedules) for methods 02, 09, 91 (thorough: 16, 25, 06, 10, 11, 23 as well); the adversary harness through IBAN(..., validate_bban=True) for 9 methods (thorough: all); non-German singletons must write nothing at call time", "switch points": "reads and writes of every attribute of a pre-existing object that the calls write"},
          "thorough": {"threads": "2 (3 for methods with <= 4 paths)", "calls": "as quick, public API for all methods", "switch points": "as quick"}}
STUBS = ["baton scheduler over real threads; switches only at shared-location accesses (thread-local steps commute)"]
ASSUMPTIONS = ["CPython-internal atomicity (a switch inside a C call), pycountry's lazy-load lock and schedules of more than 2 scheduler threads are outside the claim (the adversary harness stands for any number of interfering threads)",
               "shared locations = attributes written by the calls under test on objects that pre-exist them (found by the write monitor in a solo pre-pass); registries are read-only at call time (C15)"]
MAXTASKS = 10
JOB_BUDGET_S = 1500


def jobs(tier, seed):
    import random

    from schwifty.checksum import algorithms

    # two symbolic callers multiply the path counts (p1 x p2 x schedules): only methods with few paths per call
    small = {"DE:02", "DE:09", "DE:91"} | ({"DE:16", "DE:25", "DE:06", "DE:10", "DE:11", "DE:23"} if tier == "thorough" else set())
    out = [{"kind": "adv", "key": k} for k in sorted(algorithms) if k.startswith("DE:")]
    out += [{"kind": "algo", "key": k, "threads": 2} for k in sorted(algorithms) if not k.startswith("DE:") or k in small]
    rnd = random.Random(seed)
    meths = registered()
    api = meths if tier == "thorough" else rnd.sample(meths, 6) + ["16", "25", "02"]
    banks = de_banks()
    per = {}
    for c in sorted(banks):
        per.setdefault(banks[c].get("checksum_algo"), []).append(c)
    for m in sorted(set(api)):
        cs = per.get(m, [])
        if len(cs) >= 1:
            out.append({"kind": "api", "m": m, "codes": [cs[0], cs[-1]]})
    # three logical threads were tried for method 02: 12,290 paths in 900 s without exhausting the schedules, so the
    # scheduler jobs stay at two threads (the adversary jobs cover any number of interfering threads)
    return out


def shared_locations(thunk):
    """solo pre-pass under the write monitor: (id(obj), attr) written on objects that existed before the call"""
    import gc

    before = {id(o) for o in gc.get_objects()}
    rt.MONITOR["on"] = True
    found = set()
    try:
        def fn():
            ctx.writes = []
            try:
                thunk()
            except Exception:  # noqa: BLE001
                pass
            for kind, oid, tname, key in ctx.writes:
                if kind in ("setattr", "delattr") and oid in before and isinstance(key, str):
                    found.add((oid, key))
            return None

        rt.explore(fn, lambda out: None)
    finally:
        rt.MONITOR["on"] = False
    return found


def components_for(algo, prefix):
    """symbolic components for an algorithm object: digits of generous width per accepted component"""
    from schwifty.checksum import germany

    if isinstance(algo, (germany.WeightedModulus, germany.Algorithm09, germany.Algorithm91)):
        a = digits10(prefix)
        return [a], [H.symstr(a)], ""
    widths = {"IS": [10], "CZ": [6, 10], "SK": [6, 10]}
    return None


def run_job(job, res):
    if job["kind"] == "adv":
        run_adversary(job["key"], res)
    elif job["kind"] == "algo":
        run_algo(job["key"], job["threads"], res)
    else:
        run_api(job["m"], job["codes"], res)


def outcome_neq(a, b):
    """z3 condition / bool: two outcomes differ"""
    if a[0] != b[0]:
        return True
    if a[0] == "exc":
        return type(a[1]) is not type(b[1])
    x, y = a[1], b[1]
    if isinstance(x, (SymBool, bool)) and isinstance(y, (SymBool, bool)):
        return z3.simplify(rt.zb(x) != rt.zb(y)) if isinstance(x, SymBool) or isinstance(y, SymBool) else x != y
    if isinstance(x, (str, rt.SymStr, rt.StrBase)) and isinstance(y, (str, rt.SymStr, rt.StrBase)):
        from harness.c11 import neq

        return neq(x, y)
    return x != y


def run_algo(key, nthreads, res):
    from schwifty.checksum import algorithms

    algo = algorithms[key]
    cc = key.split(":")[0]
    if cc != "DE":
        return run_algo_generic(key, res)
    a0 = None
    shared = shared_locations(lambda: algo.validate([H.symstr(digits10("p"))], ""))
    res["notes"].append(f"{key}: shared locations {sorted(n for _, n in shared)}")
    if not shared:
        res["obligations"] += 1
        return  # nothing is written at call time: calls on this object commute
    holder = {}

    def fn():
        accts = [digits10(f"t{i}_") for i in range(nthreads)]
        holder["accts"] = accts
        solo = [H_try(lambda a=a: algo.validate([H.symstr(a)], "")) for a in accts]
        s = sched.Scheduler(shared)
        conc = s.run({f"T{i}": (lambda a=a: algo.validate([H.symstr(a)], "")) for i, a in enumerate(accts)})
        holder["trace"] = list(s.trace)
        return solo, [conc[f"T{i}"] for i in range(nthreads)]

    def on_path(out):
        if out[0] == "exc":
            raise rt.Unmodelled(f"scheduler harness raised {type(out[1]).__name__}: {out[1]}")
        solo, conc = out[1]
        res["obligations"] += 1
        for i, (s, c) in enumerate(zip(solo, conc)):
            d = outcome_neq(s, c)
            if d is False or (not isinstance(d, bool) and z3.is_false(d)):
                continue
            if (d is True and ctx.final()) or (d is not True and ctx.final(d)):
                m = ctx.model()
                accts = ["".join(map(chr, H.model_cps(m, a))) for a in holder["accts"]]
                res["violations"].append({"property": "C14", "what": f"{key}: thread {i} validating {accts[i]} gets a different answer than alone when interleaved with {accts[1 - i] if nthreads == 2 else accts}; schedule {holder['trace']}",
                                          "mode": "violation", "setup": {"module": "spec.replay_c14", "func": "replay"}, "key": key, "accounts": accts, "thread": i,
                                          "schedule": [t for t, _, _ in holder["trace"]], "engine": H.outcome_of(c)})
                return
        if "w" not in holder and ctx.witness():
            holder["w"] = 1
            m = ctx.model()
            accts = ["".join(map(chr, H.model_cps(m, a))) for a in holder["accts"]]
            res["witnesses"].append({"property": "C14", "what": f"{key} interleaved", "mode": "witness", "setup": {"module": "spec.replay_c14", "func": "replay_witness"},
                                     "key": key, "accounts": accts, "schedule": [t for t, _, _ in holder["trace"]], "engine": {"outcome": "return"}})

    rt.explore(fn, on_path)


def run_adversary(key, res, code=None):
    """one caller with a symbolic account against an adversary: before every read and right after every write of the caller to a shared
    location, *another real thread* overwrites that location with an arbitrary value in 0..10 (any remainder a
    concurrent call of the same method could leave there).  The caller's outcome must equal its solo outcome.
    With `code` the call is IBAN('DE' dd code account, validate_bban=True) through the public API."""
    import threading

    from schwifty.checksum import algorithms

    algo = algorithms[key]
    shared = shared_locations(lambda: algo.validate([H.symstr(digits10("p"))], ""))
    res["notes"].append(f"{key}: shared locations {sorted(n for _, n in shared)}")
    res["obligations"] += 1
    if not shared:
        return
    holder = {}

    def fn():
        a = digits10("t_")
        holder["a"] = a
        if code is None:
            call = lambda: algo.validate([H.symstr(a)], "")  # noqa: E731
        else:
            from schwifty import IBAN

            dd = [rt.digit_char("dda"), rt.digit_char("ddb")]
            holder["dd"] = dd
            w = H.symstr([68, 69] + dd + [ord(c) for c in code] + a)
            call = lambda: IBAN(w, validate_bban=True)  # noqa: E731
        solo = H_try(call)
        writes = []

        def access(kind, obj, name):
            if (id(obj), name) not in shared or threading.current_thread() is not main or kind == "w":
                return  # the adversary strikes before every read and right after every write of the caller
            v = rt.fresh_int(f"adv{len(writes)}", 0, 10)
            owner = "algo" if obj is algo else next((k for c in type(algo).__mro__ for k, val in vars(c).items() if val is obj), "?")
            writes.append((kind, name, v, owner))
            t = threading.Thread(target=lambda: setattr(obj, name, rt.SymInt(v)))
            t.start()
            t.join()

        main = threading.current_thread()
        old = ctx.on_shared_access
        ctx.on_shared_access = access
        try:
            conc = H_try(call)
        finally:
            ctx.on_shared_access = old
        holder["writes"] = writes
        return solo, conc

    def on_path(out):
        solo, conc = out[1]
        res["obligations"] += 1
        d = outcome_neq(solo, conc)
        same = d is False or (not isinstance(d, bool) and z3.is_false(d))
        if not same and ((d is True and ctx.final()) or (d is not True and ctx.final(d))):
            m = ctx.model()
            acct = "".join(map(chr, H.model_cps(m, holder["a"])))
            if code is not None:
                acct = "DE" + "".join(map(chr, H.model_cps(m, holder["dd"]))) + code + acct
            ws = [[k, n, m.eval(v, model_completion=True).as_long(), o] for k, n, v, o in holder["writes"]]
            res["violations"].append({"property": "C14", "what": f"{key}: validating {acct} while another thread leaves {ws} in the shared scratch state gives a different answer than alone",
                                      "mode": "violation", "setup": {"module": "spec.replay_c14", "func": "replay_adversary"}, "key": key, "account": acct, "writes": ws, "engine": H.outcome_of(conc)})
        elif "w" not in holder and ctx.witness():
            holder["w"] = 1
            m = ctx.model()
            acct = "".join(map(chr, H.model_cps(m, holder["a"])))
            if code is not None:
                acct = "DE" + "".join(map(chr, H.model_cps(m, holder["dd"]))) + code + acct
            ws = [[k, n, m.eval(v, model_completion=True).as_long(), o] for k, n, v, o in holder["writes"]]
            res["witnesses"].append({"property": "C14", "what": f"{key} against adversary writes", "mode": "witness", "setup": {"module": "spec.replay_c14", "func": "replay_adversary_witness"},
                                     "key": key, "account": acct, "writes": ws, "engine": {"outcome": "return"}})

    rt.explore(fn, on_path)


def run_algo_generic(key, res):
    """non-German singletons: they must not write anything at call time (then concurrent calls commute)"""
    from schwifty.bban import BBAN
    from harness.c02 import bban_chars
    from spec import table

    cc = key.split(":")[0]
    if cc not in table.countries():
        return
    cls = table.classes(cc)

    def thunk():
        b = bban_chars(cls)
        if cc in ("IT", "SM"):
            for c in b[11:]:
                ctx.add(c.guards[0])
        BBAN(cc, H.symstr(b)).validate_national_checksum()

    shared = shared_locations(thunk)
    res["obligations"] += 1
    if shared:
        raise rt.Unmodelled(f"{key}: writes shared state {sorted(n for _, n in shared)}; no concurrent harness for this algorithm")


def run_api(m, codes, res):
    run_adversary(f"DE:{m}", res, code=codes[0])
