"""Lemma N: for raw texts t of a given length over ALL code points (partitioned by how normalisation treats them),
the payload of cls(t, allow_invalid=True) equals the reference normaliser h*(t) = upper-case mapping of every
non-whitespace character (str.isspace / str.upper tables, per character)."""
import z3

from harness import common as H
from sx import rt
from sx.core import ctx
from sx.terms import in_ranges, prune_ite, ranges, seg_lookup, segments

_T = {}


def ref_tables():
    if not _T:
        ws, one, multi = [], {}, {}
        for c in range(0x110000):
            ch = chr(c)
            if ch.isspace():
                ws.append(c)
            u = ch.upper()
            if len(u) == 1:
                if ord(u) != c:
                    one[c] = ord(u)
            else:
                multi[c] = u
        _T["ws"] = ranges(ws)
        _T["one"] = segments(one)
        _T["multi"] = multi
        _T["multi_by_len"] = {}
        for n in sorted({len(u) for u in multi.values()}):
            cps = [c for c, u in multi.items() if len(u) == n]
            _T["multi_by_len"][n] = (ranges(cps), [segments({c: ord(multi[c][k]) for c in cps}) for k in range(n)])
    return _T


def ref_normalise(chars):
    """forking reference: list of output char terms"""
    T = ref_tables()
    out = []
    for c in chars:
        q = H.term_of(c)
        if ctx.choose(in_ranges(q, T["ws"])):
            continue
        done = False
        for n, (rs, tabs) in T["multi_by_len"].items():
            if ctx.choose(in_ranges(q, rs)):
                for tab in tabs:
                    out.append(seg_lookup(q, tab))
                done = True
                break
        if not done:
            out.append(seg_lookup(q, T["one"], default="self"))
    return out


def run(clsname, n, res, pid, extra_kwargs=None):
    holder = {}
    seen = set()

    def fn():
        chars = [rt.raw_char(f"t{i}") for i in range(n)]
        holder["chars"] = chars
        import schwifty

        cls = getattr(schwifty, clsname.split(".")[-1])
        obj = cls(H.symstr(chars), allow_invalid=True, **(extra_kwargs or {}))
        payload = obj._s
        ref = ref_normalise(chars)
        return payload, ref

    def on_path(out):
        chars = holder["chars"]
        res["obligations"] += 1
        bad = None
        if out[0] == "exc":
            if ctx.final():
                bad = f"constructor with allow_invalid raised {type(out[1]).__name__}"
        else:
            payload, ref = out[1]
            p = rt.SymStr.of(payload)._dense().p
            if len(p) != len(ref):
                if ctx.final():
                    bad = f"normalised length {len(p)} != reference {len(ref)}"
            else:
                neq = [rt.zc(a) != rt.zc(b) for a, b in zip(p, ref)]
                neq = [z3.simplify(x) for x in neq]
                neq = [x for x in neq if not z3.is_false(x)]
                if neq and ctx.final(z3.Or(neq)):
                    bad = "normalised payload differs from the reference normaliser"
        if bad:
            cps = H.model_cps(ctx.model(), chars)
            res["violations"].append(
                {
                    "property": pid,
                    "what": f"raw text len {n}: {bad}",
                    "call": {"steps": [["call", clsname, [H.cp_enc(cps)], {"allow_invalid": True}], ["apply", "builtins.str"]]},
                    "mode": "violation",
                    "pred": {"kind": "custom", "module": "spec.replay_preds", "func": "norm_disagrees"},
                    "engine": H.outcome_of(out),
                }
            )
        elif out[0] == "ret":
            k = len(out[1][1])
            if k not in seen and len(seen) < 4 and ctx.witness():
                seen.add(k)
                m = ctx.model()
                cps = H.model_cps(m, chars)
                val = [x if isinstance(x, int) else m.eval(x, model_completion=True).as_long() for x in out[1][1]]
                res["witnesses"].append(
                    {
                        "property": pid,
                        "what": f"raw text len {n} -> payload len {k}",
                        "call": {"steps": [["call", clsname, [H.cp_enc(cps)], {"allow_invalid": True}], ["apply", "builtins.str"]]},
                        "mode": "witness",
                        "engine": {"outcome": "return", "value": {"cp": val}},
                    }
                )

    rt.explore(fn, on_path)
