"""C01 - IBAN acceptance is exactly the ISO 13616 rule set over the bundled country table.

Harness A: for every country of the table (plus the residual 'unknown prefix' case) and every length 0..40 the
real constructor IBAN(w) is executed on a symbolic compact string w (partitioned code points over all of Unicode,
clean-stable); on every path the outcome is compared with the reference S(w) by the solver.
Harness N (lemma): raw texts up to the stated length over the full partition incl. whitespace / case-changing /
expanding code points: payload of IBAN(t, allow_invalid=True) == reference normaliser h*(t).
"""
import z3

from harness import common as H
from spec import iso13616, table
from sx import rt
from sx.core import ctx

MAXLEN = 40
BOUNDS = {
    "quick": {"lengths": "0..40", "countries": "one per distinct table signature + unknown-prefix case", "alphabet": "all code points 0..0x10FFFF (clean-stable); raw text lemma |t|<=3"},
    "thorough": {"lengths": "0..40", "countries": "all + unknown-prefix case", "alphabet": "all code points 0..0x10FFFF (clean-stable); raw text lemma |t|<=4"},
}
STUBS = ["re.match/Pattern.match (generic matcher over fixed-length symbolic strings, category tables from the real engine)", "Pattern.sub(\\s+) as per-character deletion", "str.upper per character (tables scanned from the real str.upper)", "int()/str()/format of decimal pieces", "str.index by table"]
ASSUMPTIONS = [
    "environment models of sx.models (self-tested against the real builtins at run start)",
    "raw texts longer than the lemma bound: re.sub and str.upper act character-wise",
    "z3 5.1 answers (unknown is never treated as a verdict)",
]


def jobs(tier, seed):
    out = []
    for cc in H.country_jobs(tier, seed) + ["??"]:
        own = None if cc == "??" else 4 + len(table.classes(cc) or "")
        out.append({"kind": "lens", "cc": cc, "skip": own})
        if own is not None:
            out.append({"kind": "own", "cc": cc, "L": own})
    for n in range(0, (4 if tier == "thorough" else 3) + 1):
        out.append({"kind": "raw", "n": n})
    return out


def run_job(job, res):
    if job["kind"] == "lens":
        for L in range(0, MAXLEN + 1):
            if L != job["skip"]:
                explore_len(job["cc"], L, res)
    elif job["kind"] == "own":
        explore_len(job["cc"], job["L"], res)
    else:
        from harness import lemma_n

        lemma_n.run("schwifty.IBAN", job["n"], res, "C01")


def explore_len(cc, L, res, kwargs=None, pid="C01"):
    known = cc != "??"
    holder = {}
    seen_kinds = set()
    keys = sorted(table.countries())

    def fn():
        n_sym = L - 2 if known and L >= 2 else L
        if known and L < 2:
            raise rt.PathAbort("prefix longer than text")
        cs = [rt.compact_char(f"w{i}") for i in range(n_sym)]
        chars = ([ord(cc[0]), ord(cc[1])] if known and L >= 2 else []) + cs
        holder["chars"] = chars
        if not known and L >= 2:
            # residual case: the two-character prefix is not a key of the reference table
            a, b = H.term_of(chars[0]), H.term_of(chars[1])
            for k in keys:
                ctx.add(z3.Not(z3.And(a == ord(k[0]), b == ord(k[1]))))
        from schwifty import IBAN

        return IBAN(H.symstr(chars), **(kwargs or {}))

    def on_path(out):
        chars = holder["chars"]
        accepted = out[0] == "ret"
        cls = table.classes(cc) if known else None
        spec_possible = known and cls is not None and L == 4 + len(cls) and "e" not in cls
        res["obligations"] += 1
        verdict = None
        if not spec_possible:
            if accepted and ctx.final():
                verdict = ("false-accept", "accepted although country/length cannot match the table")
        else:
            conds = [H.class_cond(chars[2], "n"), H.class_cond(chars[3], "n")] + [
                H.class_cond(c, k) for c, k in zip(chars[4:], cls)
            ]
            cls_ok = z3.And(conds)
            if accepted:
                if ctx.final(z3.Not(cls_ok)):
                    verdict = ("false-accept", "accepted with a character outside its position's class")
                else:
                    ctx.add(cls_ok)
                    arith = spec_arith(chars)
                    if ctx.final(z3.Not(arith)):
                        verdict = ("false-accept", "accepted although mod-97 / check-digit range fails")
                    elif L > 34:
                        verdict = ("false-accept", "accepted IBAN longer than 34")
            else:
                if ctx.light_feasible(cls_ok):
                    ctx.push()
                    ctx.add(cls_ok)
                    arith = spec_arith(chars)
                    if ctx.final(arith):
                        verdict = ("false-reject", f"rejected ({type(out[1]).__name__}) although the reference accepts")
                    else:
                        ctx.pop()
        kind = "accept" if accepted else type(out[1]).__name__
        if verdict is not None:
            cps = H.model_cps(ctx.model(), chars)
            res["violations"].append(
                {
                    "property": pid,
                    "what": f"{cc} len {L}: {verdict[1]}",
                    "call": H.iban_call(cps, **(kwargs or {})),
                    "mode": "violation",
                    "pred": {"kind": "custom", "module": "spec.replay_preds", "func": "c01_disagrees"},
                    "engine": H.outcome_of(out),
                }
            )
        elif (kind, L) not in seen_kinds and len(seen_kinds) < 6 and (accepted or L in (0, 4, 22) or spec_possible):
            seen_kinds.add((kind, L))
            if ctx.witness():
                cps = H.model_cps(ctx.model(), chars)
                res["witnesses"].append(
                    {"property": pid, "what": f"{cc} len {L} {kind}", "call": H.iban_call(cps, **(kwargs or {})), "mode": "witness", "engine": H.outcome_of(out)}
                )

    rt.explore(fn, on_path)


def spec_arith(chars):
    """N mod 97 == 1 and 02 <= dd <= 98, on chars already constrained to their classes"""
    N = H.spec_numeric(list(chars[4:]) + list(chars[:4]))
    dd = H.spec_digit(chars[2]) * 10 + H.spec_digit(chars[3])
    return z3.And(z3.simplify(N % 97 == 1), z3.simplify(dd >= 2), z3.simplify(dd <= 98))
