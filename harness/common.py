"""Shared harness helpers: symbolic inputs, z3 side of the references, outcome/replay records."""
import z3

from spec import iso13616, table
from sx import models, rt
from sx.core import ctx
from sx.terms import PChar, in_ranges, ival, prune_ite, seg_lookup, segments
from sx.values import Dec, SymStr

SPEC_SEGS = segments(iso13616.VALUE)
DIGIT_R = [[48, 57]]
UPPER_R = [[65, 90]]


def cp_enc(cps):
    return {"cp": [int(c) for c in cps]}


def s_enc(s):
    return {"cp": [ord(c) for c in s]}


def term_of(c):
    return c.term if isinstance(c, PChar) else c


def symstr(chars):
    return rt.mkstr([term_of(c) for c in chars])


def class_cond(c, k):
    return in_ranges(term_of(c) if not isinstance(c, int) else c, iso13616.CLASS_RANGES[k])


def spec_value_piece(c):
    """reference value of an alphanumeric char as a decimal piece (A=10..Z=35), canonical form under the path condition"""
    if isinstance(c, int):
        v = iso13616.VALUE[c]
        return Dec(z3.IntVal(v), len(str(v)), len(str(v)))
    v = z3.simplify(prune_ite(seg_lookup(term_of(c), SPEC_SEGS)))
    b = ival(v)
    if b is not None and b[1] < 10:
        return Dec(v, 1, 1)
    if b is not None and b[0] >= 10:
        return Dec(v, 2, 2)
    return Dec(v, 1, 2)


def spec_numeric(chars):
    """definitional integer of the rearranged, letter-expanded string (chars must already be known alphanumeric)"""
    r = models.model_int(SymStr([spec_value_piece(c) for c in chars]))
    return r.e if isinstance(r, rt.SymInt) else z3.IntVal(r)


def spec_digit(c):
    if isinstance(c, int):
        return z3.IntVal(c - 48)
    return z3.simplify(prune_ite(seg_lookup(term_of(c), SPEC_SEGS)))


def outcome_of(out):
    """('ret', v) | ('exc', e)  ->  engine outcome dict for replay records"""
    if out[0] == "ret":
        return {"outcome": "return"}
    return {"outcome": "raise", "exc": type(out[1]).__name__}


def is_library_exc(e):
    from schwifty.exceptions import SchwiftyException

    return isinstance(e, SchwiftyException)


def model_cps(m, chars):
    return rt.model_string(m, chars)


def iban_call(cps, **kw):
    return {"steps": [["call", "schwifty.IBAN", [cp_enc(cps)], kw]]}


def bic_call(cps, **kw):
    return {"steps": [["call", "schwifty.BIC", [cp_enc(cps)], kw]]}


def country_jobs(tier, seed, only=None):
    """quick: one representative per distinct table signature (an edited entry gets its own signature); thorough: all"""
    import random

    ccs = sorted(table.countries())
    if only:
        ccs = [c for c in ccs if c in only]
    if tier == "thorough":
        return ccs
    groups = {}
    for cc in ccs:
        groups.setdefault(table.signature(cc), []).append(cc)
    rnd = random.Random(seed)
    return sorted(rnd.choice(g) for g in groups.values())
