"""C07 - German account numbers are judged by the Bundesbank method of their bank.

A (method level): for each registered DE:xx singleton, validate([a], "") runs on ten symbolic ASCII digits; on every
   path "accepts" (returns a true value; raising InvalidBBANChecksum = reject) is proved equal to the reference
   (spec/bundesbank.py) wherever the reference is certain.
B (dispatch): for every German bank code of the bundled registry, BBAN('DE', code + ten symbolic digits)
   .validate_national_checksum() is executed with the method objects replaced by recording stubs whose verdict is a
   free symbolic Boolean: the stub entered must be the one named by the registry entry (reference lookup), it must
   receive exactly the account digits, and the call must return True / raise InvalidBBANChecksum according to the
   verdict; unlisted codes and banks with an unimplemented method enter no stub and are accepted.
C (through the public API): for one bank per implemented method, IBAN(w, validate_bban=True) accepts iff
   IBAN(w) accepts and the reference method accepts the account."""
import z3

from harness import common as H
from harness.c02 import H_try
from spec import bundesbank, table
from sx import rt
from sx.core import ctx
from sx.values import SymBool

BOUNDS = {"quick": {"A": "all registered methods x all 10^10 accounts", "B": "all German bank codes of the registry + the unlisted case", "C": "one bank per implemented method, all accounts and check digits"},
          "thorough": {"A": "all registered methods x all 10^10 accounts", "B": "all German bank codes of the registry + the unlisted case", "C": "three banks per implemented method"}}
STUBS = ["B: method objects replaced by recording stubs with a free symbolic verdict (their bodies are decided in A)", "int/str/zip/cycle/rstrip models"]
ASSUMPTIONS = ["reference transcribed from the Bundesbank description; uncertain clauses excluded: " + "; ".join(f"{k}: {v}" for k, v in sorted(bundesbank.UNCERTAIN.items()))]
MAXTASKS = 200


_DE = {}


def de_banks():
    """reference view: bank code -> first registry entry (file order), German entries only"""
    if _DE:
        return _DE
    first = _DE
    for e in table.banks():
        if e.get("country_code") == "DE" and e.get("bank_code"):
            first.setdefault(e["bank_code"], e)
    return first


def registered():
    from schwifty.checksum import algorithms

    return sorted(k.split(":")[1] for k in algorithms if k.startswith("DE:"))


def jobs(tier, seed):
    import random

    meths = registered()
    out = [{"kind": "A", "m": m} for m in meths]
    banks = de_banks()
    codes = sorted(banks)
    for i in range(0, len(codes), 120):
        out.append({"kind": "B", "codes": codes[i : i + 120]})
    out.append({"kind": "B-unlisted"})
    rnd = random.Random(seed)
    per = {}
    for c in codes:
        per.setdefault(banks[c].get("checksum_algo"), []).append(c)
    for m, cs in sorted(per.items(), key=lambda kv: str(kv[0])):
        if m in meths:
            for c in rnd.sample(cs, min(3 if tier == "thorough" else 1, len(cs))):
                out.append({"kind": "C", "code": c, "m": m})
    return out


def digits10(prefix="a"):
    return [rt.digit_char(f"{prefix}{i}") for i in range(10)]


def dvals(cs):
    return [c.vars[0] for c in cs]


def run_job(job, res):
    k = job["kind"]
    if k == "A":
        run_method(job["m"], res)
    elif k == "B":
        for code in job["codes"]:
            run_dispatch(code, res)
    elif k == "B-unlisted":
        run_dispatch(None, res)
    else:
        run_api(job["code"], job["m"], res)


def accepts_term(out):
    """z3 Bool / bool: the call accepted (returned a true value)"""
    from schwifty.exceptions import InvalidBBANChecksum

    if out[0] == "exc":
        if isinstance(out[1], InvalidBBANChecksum):
            return False
        return None
    v = out[1]
    if isinstance(v, SymBool):
        return v.e
    if isinstance(v, bool):
        return v
    return None


def run_method(m, res):
    from schwifty.checksum import algorithms

    algo = algorithms[f"DE:{m}"]
    ref = bundesbank.METHODS.get(m)
    if ref is None:
        raise rt.Unmodelled(f"no reference for registered method {m}")
    holder, seen = {}, set()

    def fn():
        a = digits10()
        holder["a"] = a
        return algo.validate([H.symstr(a)], "")

    def on_path(out):
        a = holder["a"]
        res["obligations"] += 1
        acc = accepts_term(out)
        if acc is None:
            if ctx.final():
                cps = H.model_cps(ctx.model(), a)
                res["violations"].append(viol(m, cps, f"method {m}: unexpected outcome {H.outcome_of(out)} / non-boolean verdict"))
            return
        want, certain = ref(dvals(a))
        accz = acc if not isinstance(acc, bool) else z3.BoolVal(acc)
        wz = want if not isinstance(want, bool) else z3.BoolVal(want)
        cz = certain if not isinstance(certain, bool) else z3.BoolVal(certain)
        if ctx.final(z3.And(cz, accz != wz)):
            mdl = ctx.model()
            cps = H.model_cps(mdl, a)
            got = z3.is_true(mdl.eval(accz, model_completion=True))
            res["violations"].append(viol(m, cps, f"method {m}: account {''.join(map(chr, cps))} is {'accepted' if got else 'rejected'} but the Bundesbank rule says the opposite"))
            return
        for tag, cond in (("accept", accz), ("reject", z3.Not(accz))):
            if (m, tag) not in seen and ctx.witness(cond):
                seen.add((m, tag))
                cps = H.model_cps(ctx.model(), a)
                eng = {"outcome": "return", "value": tag == "accept"} if out[0] == "ret" else H.outcome_of(out)
                res["witnesses"].append({"property": "C07", "what": f"method {m} {tag}", "mode": "witness", "engine": eng,
                                         "call": {"steps": [["call", "spec.replay_preds.de_method_accepts", [m, H.cp_enc(cps)], {}]]}})

    rt.explore(fn, on_path)


def viol(m, cps, what):
    return {"property": "C07", "what": what, "mode": "violation", "method": m,
            "call": {"steps": [["call", "spec.replay_preds.de_method_accepts", [m, H.cp_enc(cps)], {}]]},
            "pred": {"kind": "custom", "module": "spec.replay_preds", "func": "c07_method"}, "engine": {"outcome": "return"}}


class Rec:
    """recording stand-in for an algorithm singleton (dispatch harness): free symbolic verdict"""

    def __init__(self, key, real, log):
        self.key, self.real, self.log = key, real, log
        self.accepts = real.accepts
        self.name = real.name

    def validate(self, components, expected):
        v = rt.fresh_bool("verdict")
        self.log.append((self.key, components, expected, v))
        return SymBool(v)

    def compute(self, components):
        raise rt.Unmodelled("compute() reached in the dispatch harness")


def run_dispatch(code, res):
    from schwifty import checksum
    from schwifty.bban import BBAN
    from schwifty.exceptions import InvalidBBANChecksum

    banks = de_banks()
    holder = {}
    real = dict(checksum.algorithms)
    log = []
    try:
        for k, v in real.items():
            if k.startswith("DE:"):
                checksum.algorithms[k] = Rec(k, v, log)

        def fn():
            del log[:]
            a = digits10()
            if code is None:
                bc = [rt.digit_char(f"c{i}") for i in range(8)]
                holder["bc"] = bc
                for k in banks:
                    ctx.add(z3.Not(z3.And([H.term_of(c) == ord(ch) for c, ch in zip(bc, k)])))
                val = H.symstr(bc + a)
            else:
                val = H.symstr([ord(c) for c in code] + a)
            holder["a"] = a
            return BBAN("DE", val).validate_national_checksum()

        def on_path(out):
            a = holder["a"]
            res["obligations"] += 1
            entry = banks.get(code) if code is not None else None
            want_key = None
            if entry is not None and entry.get("checksum_algo") is not None and ("DE:" + entry["checksum_algo"]) in real:
                want_key = "DE:" + entry["checksum_algo"]
            elif entry is not None and "checksum_algo" not in entry and "DE:default" in real:
                want_key = "DE:default"
            bad = None
            if want_key is None:
                if log:
                    bad = f"method {log[0][0]} entered for a bank without implemented method"
                elif not (out[0] == "ret" and out[1] is True):
                    bad = f"unlisted / unimplemented bank not accepted: {H.outcome_of(out)}"
            else:
                if len(log) != 1 or log[0][0] != want_key:
                    bad = f"entered {[l[0] for l in log]} instead of {want_key}"
                else:
                    _, comps, expected, v = log[0]
                    ok_args = isinstance(comps, list) and len(comps) == 1 and (rt.SymStr.of(comps[0]) == H.symstr(a)) is True and expected == ""
                    if not ok_args:
                        bad = "method received something else than the ten account digits"
                    elif out[0] == "ret":
                        if out[1] is not True:
                            bad = f"success reported as {out[1]!r} instead of True"
                        elif ctx.final(z3.Not(v)):
                            bad = "accepted although the method rejects"
                    elif not isinstance(out[1], InvalidBBANChecksum):
                        bad = f"raised {type(out[1]).__name__}"
                    elif ctx.final(v):
                        bad = "rejected although the method accepts"
            if bad and ctx.final():
                m = ctx.model()
                cps = ([ord(c) for c in code] if code is not None else H.model_cps(m, holder["bc"])) + H.model_cps(m, a)
                res["violations"].append({"property": "C07", "what": f"dispatch for bank {code or 'unlisted'}: {bad}", "mode": "violation",
                                          "call": {"steps": [["call", "spec.replay_preds.de_dispatch", [H.cp_enc(cps)], {}]]},
                                          "pred": {"kind": "custom", "module": "spec.replay_preds", "func": "c07_dispatch"}, "engine": H.outcome_of(out)})

        rt.explore(fn, on_path)
    finally:
        checksum.algorithms.clear()
        checksum.algorithms.update(real)


def run_api(code, m, res):
    ref = bundesbank.METHODS[m]
    holder, seen = {}, set()

    def fn():
        from schwifty import IBAN

        a = digits10()
        dd = [rt.digit_char("dd0"), rt.digit_char("dd1")]
        chars = [68, 69] + dd + [ord(c) for c in code] + a
        holder.update(a=a, chars=chars)
        w = H.symstr(chars)
        r0 = H_try(lambda: IBAN(w))
        r1 = H_try(lambda: IBAN(w, validate_bban=True))
        return r0, r1

    def on_path(out):
        a, chars = holder["a"], holder["chars"]
        r0, r1 = out[1]
        res["obligations"] += 1
        want, certain = ref(dvals(a))
        wz = want if not isinstance(want, bool) else z3.BoolVal(want)
        cz = certain if not isinstance(certain, bool) else z3.BoolVal(certain)
        bad = None
        if r1[0] == "ret" and r0[0] != "ret":
            bad = "national validation accepted an IBAN that plain validation rejects" if ctx.final() else None
        elif r0[0] == "ret":
            if r1[0] == "ret":
                if ctx.final(z3.And(cz, z3.Not(wz))):
                    bad = f"accepted although method {m} rejects the account"
            elif type(r1[1]).__name__ != "InvalidBBANChecksum":
                bad = f"raised {type(r1[1]).__name__}" if ctx.final() else None
            elif ctx.final(z3.And(cz, wz)):
                bad = f"rejected although method {m} accepts the account"
        if bad:
            cps = H.model_cps(ctx.model(), chars)
            res["violations"].append({"property": "C07", "what": f"IBAN of bank {code} (method {m}): {bad}", "mode": "violation", "method": m,
                                      "call": H.iban_call(cps, validate_bban=True),
                                      "pred": {"kind": "custom", "module": "spec.replay_preds", "func": "c07_api"}, "engine": H.outcome_of(r1)})
            return
        kind = "accept" if r1[0] == "ret" else type(r1[1]).__name__
        if kind not in seen and ctx.witness():
            seen.add(kind)
            cps = H.model_cps(ctx.model(), chars)
            res["witnesses"].append({"property": "C07", "what": f"bank {code} method {m} {kind}", "call": H.iban_call(cps, validate_bban=True), "mode": "witness", "engine": H.outcome_of(r1)})

    rt.explore(fn, on_path)
