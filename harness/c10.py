"""C10 - whitespace and letter case never matter; formatting round-trips.

Harness A: x = symbolic compact string (arbitrary clean-stable code points).  raw = g0 c0 g1 c1 ... gL where every
g_i is an optional slot holding an arbitrary whitespace code point (all \\s code points of this interpreter) and c_i is
x_i or, under a free case bit, its ASCII lower-case variant.  X(raw) and X(x) run in one path; same outcome class,
equal objects / str / compact, no whitespace, no lower case.  Harness B: for accepted w, formatted == reference
grouping and parsing formatted / str again gives an equal object.  Arbitrary raw text at small length: Lemma N (C01, C04)."""
import z3

from harness import common as H
from harness.c02 import H_try, bban_chars
from harness.c11 import neq
from spec import table
from sx import extmodels, rt  # noqa: F401
from sx.core import ctx
from sx.terms import category_ranges, fresh_bool
from sx.values import Opt, SymStr

BOUNDS = {"quick": {"A": "IBAN: one country per table signature at its own length, plus lengths 0..8 and 20..24 for DE; BIC lengths 8, 11 and 0..12; one optional whitespace slot per gap (any of the \\s code points), ASCII case variants", "B": "all accepted IBANs per selected country; accepted BICs of length 8/11"},
          "thorough": {"A": "all countries at their own length, DE all lengths 0..40; BIC 0..14", "B": "all countries"}}
STUBS = ["Pattern.sub deletes optional whitespace slots because their whole class matches the pattern", "as C01 / C04"]
ASSUMPTIONS = ["runs of several whitespace characters per gap are covered by Lemma N and by \\s+ being per-character deletion", "case variants of non-ASCII letters: Lemma N only"]


def jobs(tier, seed):
    out = []
    for cc in H.country_jobs(tier, seed):
        out.append({"kind": "A", "cls": "IBAN", "cc": cc, "lens": [4 + len(table.classes(cc))]})
        out.append({"kind": "B", "cls": "IBAN", "cc": cc})
    lens = list(range(0, 41)) if tier == "thorough" else list(range(0, 9)) + list(range(20, 25))
    out.append({"kind": "A", "cls": "IBAN", "cc": "DE", "lens": [L for L in lens if L != 22]})
    for L in range(0, 15 if tier == "thorough" else 13):
        out.append({"kind": "A", "cls": "BIC", "lens": [L]})
    out += [{"kind": "B", "cls": "BIC", "L": 8}, {"kind": "B", "cls": "BIC", "L": 11}]
    return out


def run_job(job, res):
    if job["kind"] == "A":
        for L in job["lens"]:
            run_a(job["cls"], job.get("cc"), L, res)
    elif job["cls"] == "IBAN":
        run_b_iban(job["cc"], res)
    else:
        run_b_bic(job["L"], res)


def raw_variant(xs, prefix_known):
    """(raw SymStr, list of (present, ws_char) slots, list of case bits) for compact chars xs"""
    ws = category_ranges(r"\s")
    pieces, slots, bits = [], [], []

    def slot(i):
        pr = fresh_bool(f"g{i}_present")
        ch = rt.PChar(f"g{i}", [("w", ("ws", ws))])
        slots.append((pr, ch))
        return Opt(pr, ch.term, ws)

    for i, c in enumerate(xs):
        pieces.append(slot(i))
        low = fresh_bool(f"low{i}")
        bits.append(low)
        if isinstance(c, int):
            ch = chr(c)
            pieces.append(z3.If(low, ord(ch.lower()), c) if "A" <= ch <= "Z" else c)
        else:
            kd, ku = c.guards[0], c.guards[1]
            pd, pu, o = c.vars
            pieces.append(z3.If(kd, 48 + pd, z3.If(ku, z3.If(low, 97 + pu, 65 + pu), o)))
    pieces.append(slot(len(xs)))
    return SymStr(pieces), slots, bits


def raw_model(m, xs, slots, bits):
    out = []
    for i, c in enumerate(xs + [None]):
        pr, ch = slots[i]
        if z3.is_true(m.eval(pr, model_completion=True)):
            out.append(ch.value(m))
        if c is None:
            break
        cp = c if isinstance(c, int) else c.value(m)
        if z3.is_true(m.eval(bits[i], model_completion=True)) and 65 <= cp <= 90:
            cp += 32
        out.append(cp)
    return out


def run_a(clsname, cc, L, res):
    holder, seen = {}, set()

    def fn():
        import schwifty

        cls = getattr(schwifty, clsname)
        if clsname == "IBAN":
            if L < 2:
                xs = [rt.compact_char(f"w{i}") for i in range(L)]
            else:
                xs = [ord(cc[0]), ord(cc[1])] + [rt.compact_char(f"w{i}") for i in range(L - 2)]
        else:
            xs = [rt.compact_char(f"w{i}") for i in range(L)]
        raw, slots, bits = raw_variant(xs, True)
        holder.update(xs=xs, slots=slots, bits=bits)
        r1 = H_try(lambda: cls(raw))
        r2 = H_try(lambda: cls(H.symstr(xs)))
        return r1, r2

    def on_path(out):
        xs, slots, bits = holder["xs"], holder["slots"], holder["bits"]
        res["obligations"] += 1
        r1, r2 = out[1]
        bad = None
        if r1[0] != r2[0] or (r1[0] == "exc" and type(r1[1]) is not type(r2[1])):
            if ctx.final():
                bad = f"variant outcome {H.outcome_of(r1)} differs from compact outcome {H.outcome_of(r2)}"
        elif r1[0] == "ret":
            a, b = r1[1], r2[1]
            c = neq(a, b)
            c2 = neq(a.compact, H.symstr(xs))
            for name, cond in (("objects differ", c), ("compact form differs from the normalised text", c2)):
                if cond is False:
                    continue
                if (cond is True and ctx.final()) or (cond is not True and ctx.final(cond)):
                    bad = name
                    break
            if bad is None:
                eq = a == b
                if eq is not True and not (isinstance(eq, rt.SymBool) and not ctx.final(z3.Not(eq.e))):
                    bad = "== is not true for whitespace/case variants"
        if bad:
            m = ctx.model()
            rawc = raw_model(m, xs, slots, bits)
            res["violations"].append({"property": "C10", "what": f"{clsname} {cc or ''} len {L}: {bad}", "call": {"steps": [["call", f"schwifty.{clsname}", [H.cp_enc(rawc)], {}]]},
                                      "mode": "violation", "pred": {"kind": "custom", "module": "spec.replay_preds", "func": "c10_variant"}, "cls": clsname, "engine": H.outcome_of(r1)})
            return
        kind = "accept" if r1[0] == "ret" else type(r1[1]).__name__
        if kind not in seen and len(seen) < 4:
            extra = [z3.Or([p for p, _ in slots]), z3.Or(bits)] if bits else []
            if ctx.witness(*extra) or ctx.witness():
                seen.add(kind)
                m = ctx.model()
                res["witnesses"].append({"property": "C10", "what": f"{clsname} {cc or ''} len {L} variant {kind}", "call": {"steps": [["call", f"schwifty.{clsname}", [H.cp_enc(raw_model(m, xs, slots, bits))], {}]]},
                                         "mode": "witness", "engine": H.outcome_of(r1)})

    rt.explore(fn, on_path)


def group4(chars):
    out = []
    for i in range(0, len(chars), 4):
        if i:
            out.append(32)
        out.extend(chars[i : i + 4])
    return out


def run_b_iban(cc, res):
    cls = table.classes(cc)
    holder = {}

    def fn():
        from schwifty import IBAN

        chars = [ord(cc[0]), ord(cc[1]), rt.digit_char("dd0"), rt.digit_char("dd1")] + bban_chars(cls)
        holder["chars"] = chars
        x = IBAN(H.symstr(chars))
        f = x.formatted
        return x, f, H_try(lambda: IBAN(f)), H_try(lambda: IBAN(rt.models.model_str(x))), H_try(lambda: IBAN(x.compact))

    def on_path(out):
        if out[0] == "exc":
            return
        chars = holder["chars"]
        x, f, rf, rs, rc = out[1]
        bad = []
        res["obligations"] += 4
        c = neq(f, H.symstr(group4(chars)))
        if c is not False and ((c is True and ctx.final()) or (c is not True and ctx.final(c))):
            bad.append("formatted is not the compact form in groups of four separated by single spaces")
        for name, r in (("formatted", rf), ("str", rs), ("compact", rc)):
            if r[0] == "exc":
                if ctx.final():
                    bad.append(f"parsing the {name} form raised {type(r[1]).__name__}")
                continue
            c = neq(r[1], x)
            if c is not False and ((c is True and ctx.final()) or (c is not True and ctx.final(c))):
                bad.append(f"parsing the {name} form gives a different object")
        if bad:
            if not ctx.final():
                return
            cps = H.model_cps(ctx.model(), chars)
            res["violations"].append({"property": "C10", "what": f"IBAN {cc}: " + "; ".join(bad[:2]), "call": H.iban_call(cps), "mode": "violation", "cls": "IBAN",
                                      "pred": {"kind": "custom", "module": "spec.replay_preds", "func": "c10_format"}, "engine": {"outcome": "return"}})
        elif "w" not in holder and ctx.witness():
            holder["w"] = 1
            cps = H.model_cps(ctx.model(), chars)
            res["witnesses"].append({"property": "C10", "what": f"IBAN {cc} formatted", "call": {"steps": [["call", "schwifty.IBAN", [H.cp_enc(cps)], {}], ["attr", "formatted"]]},
                                     "mode": "witness", "engine": {"outcome": "return", "value": H.cp_enc(group4(cps))}})

    rt.explore(fn, on_path)


def run_b_bic(L, res):
    holder = {}

    def fn():
        from schwifty import BIC

        chars = [rt.alnum_char(f"w{i}") for i in range(L)]
        holder["chars"] = chars
        x = BIC(H.symstr(chars))
        f = x.formatted
        return x, f, H_try(lambda: BIC(f)), H_try(lambda: BIC(rt.models.model_str(x)))

    def on_path(out):
        if out[0] == "exc":
            return
        chars = holder["chars"]
        x, f, rf, rs = out[1]
        want = chars[0:4] + [32] + chars[4:6] + [32] + chars[6:8] + (([32] + chars[8:11]) if L == 11 else [])
        bad = []
        res["obligations"] += 3
        c = neq(f, H.symstr(want))
        if c is not False and ((c is True and ctx.final()) or (c is not True and ctx.final(c))):
            bad.append("formatted is not the parts separated by single spaces")
        for name, r in (("formatted", rf), ("str", rs)):
            if r[0] == "exc":
                if ctx.final():
                    bad.append(f"parsing the {name} form raised {type(r[1]).__name__}")
                continue
            c = neq(r[1], x)
            if c is not False and ((c is True and ctx.final()) or (c is not True and ctx.final(c))):
                bad.append(f"parsing the {name} form gives a different object")
        if bad:
            if not ctx.final():
                return
            cps = H.model_cps(ctx.model(), chars)
            res["violations"].append({"property": "C10", "what": f"BIC len {L}: " + "; ".join(bad[:2]), "call": H.bic_call(cps), "mode": "violation", "cls": "BIC",
                                      "pred": {"kind": "custom", "module": "spec.replay_preds", "func": "c10_format"}, "engine": {"outcome": "return"}})
        elif "w" not in holder and ctx.witness():
            holder["w"] = 1
            cps = H.model_cps(ctx.model(), chars)
            res["witnesses"].append({"property": "C10", "what": f"BIC len {L} formatted", "call": {"steps": [["call", "schwifty.BIC", [H.cp_enc(cps)], {}], ["attr", "formatted"]]},
                                     "mode": "witness", "engine": {"outcome": "return", "value": H.cp_enc(H.model_cps(ctx.model(), want))}})

    rt.explore(fn, on_path)
