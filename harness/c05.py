"""C05 - validation is total and its error classes name a defect that is really present.

On the same symbolic inputs as C01 / C04 the three entry points are executed in one path:
    X(w)        X(w, allow_invalid=True).validate()        X(w, allow_invalid=True).is_valid
and the solver shows per path: nothing but the library's exception family escapes; is_valid never raises;
the three agree; and the class of every raised error implies (unsat of its negation) that the named defect is
present in w according to the reference."""
import z3

from harness import c01, c04
from harness import common as H
from spec import iso9362, table
from sx import extmodels, rt  # noqa: F401
from sx.core import ctx
from sx.terms import in_ranges, ranges

BOUNDS = {
    "quick": {"iban": "countries: one per table signature at their own length; all lengths 0..40 for 8 seeded countries + unknown prefix", "bic": "lengths 0..14, both modes", "alphabet": "all code points (clean-stable)"},
    "thorough": {"iban": "every country (one per table signature) at its own length; all lengths 0..40 for 48 seeded countries + unknown prefix (all 126 x 41 did not finish in 25 min on 16 cores)", "bic": "lengths 0..14, both modes", "alphabet": "all code points (clean-stable)"},
}
STUBS = c01.STUBS + c04.STUBS
ASSUMPTIONS = c01.ASSUMPTIONS + ["InvalidBBANChecksum label soundness is decided in C06/C07 (national references live there)"]


def jobs(tier, seed):
    import random

    ccs = H.country_jobs(tier, seed)
    rnd = random.Random(seed + 5)
    full = set(rnd.sample(ccs, min(48 if tier == "thorough" else 8, len(ccs))))
    out = []
    for cc in ccs:
        own = 4 + len(table.classes(cc) or "")
        out.append({"kind": "iban", "cc": cc, "lens": [own]})
        if cc in full:
            lens = [L for L in range(0, 41) if L != own]
            if tier == "thorough":  # four jobs per country so that the sweep spreads over the cores
                out += [{"kind": "iban", "cc": cc, "lens": lens[i::4]} for i in range(4)]
            else:
                out.append({"kind": "iban", "cc": cc, "lens": lens})
    out.append({"kind": "iban", "cc": "??", "lens": list(range(0, 41))})
    for L in range(0, 15):
        for st in (False, True):
            out.append({"kind": "bic", "L": L, "strict": st})
    return out


def run_job(job, res):
    if job["kind"] == "iban":
        for L in job["lens"]:
            iban_len(job["cc"], L, res)
    else:
        bic_len(job["L"], job["strict"], res)


def _try(thunk):
    try:
        return ("ret", thunk())
    except Exception as e:  # noqa: BLE001  (engine control exceptions are BaseException and pass through)
        return ("exc", e)


def _agree(r1, r2, r3):
    """None if the three entry points agree, else a description"""
    if r3[0] == "exc":
        return f"is_valid raised {type(r3[1]).__name__}"
    ok1 = r1[0] == "ret"
    if r3[1] is not ok1:
        return f"is_valid returned {r3[1]!r} but construction {'succeeded' if ok1 else 'failed'}"
    if (r2[0] == "ret") != ok1:
        return "validate() and the validating constructor disagree"
    if r2[0] == "ret" and r2[1] is not True:
        return f"validate() returned {r2[1]!r}"
    if not ok1 and type(r1[1]) is not type(r2[1]):
        return f"constructor raised {type(r1[1]).__name__}, validate() raised {type(r2[1]).__name__}"
    return None


def iban_len(cc, L, res):
    known = cc != "??"
    holder, seen = {}, set()
    keys = sorted(table.countries())

    def fn():
        if known and L < 2:
            raise rt.PathAbort("prefix longer than text")
        n_sym = L - 2 if known else L
        cs = [rt.compact_char(f"w{i}") for i in range(n_sym)]
        chars = ([ord(cc[0]), ord(cc[1])] if known else []) + cs
        holder["chars"] = chars
        if not known and L >= 2:
            a, b = H.term_of(chars[0]), H.term_of(chars[1])
            for k in keys:
                ctx.add(z3.Not(z3.And(a == ord(k[0]), b == ord(k[1]))))
        from schwifty import IBAN

        w = H.symstr(chars)
        r1 = _try(lambda: IBAN(w))
        obj = IBAN(w, allow_invalid=True)
        r2 = _try(lambda: obj.validate())
        r3 = _try(lambda: obj.is_valid)
        return r1, r2, r3

    def on_path(out):
        chars = holder["chars"]
        res["obligations"] += 1
        if out[0] == "exc":
            bad, steps = f"IBAN(w, allow_invalid=True) raised {type(out[1]).__name__}", None
            r1 = out
        else:
            r1, r2, r3 = out[1]
            bad = _agree(r1, r2, r3)
        pred = {"kind": "custom", "module": "spec.replay_preds", "func": "c05_iban"}
        if bad is None and r1[0] == "exc":
            e = r1[1]
            name = type(e).__name__
            if not H.is_library_exc(e):
                bad = f"non-library exception {name} escaped"
            else:
                bad = iban_label_unsound(cc if known else None, L, chars, name)
        if bad is not None:
            if not ctx.final():
                return
            cps = H.model_cps(ctx.model(), chars)
            res["violations"].append({"property": "C05", "what": f"IBAN {cc} len {L}: {bad}", "call": H.iban_call(cps), "mode": "violation", "pred": pred, "engine": H.outcome_of(r1)})
            return
        kind = "accept" if r1[0] == "ret" else type(r1[1]).__name__
        if (kind, L) not in seen and len(seen) < 5 and ctx.witness():
            seen.add((kind, L))
            cps = H.model_cps(ctx.model(), chars)
            res["witnesses"].append({"property": "C05", "what": f"IBAN {cc} len {L} {kind}", "call": H.iban_call(cps), "mode": "witness", "engine": H.outcome_of(r1)})

    rt.explore(fn, on_path)


def iban_label_unsound(cc, L, chars, name):
    """None if the raised class names a defect present on every input of this path (negation unsat)"""
    cls = table.classes(cc) if cc else None
    right_len = cc is not None and cls is not None and L == 4 + len(cls)
    if name == "InvalidCountryCode":
        if cc is not None and ctx.final():
            return "InvalidCountryCode for a country of the table"
        return None
    if name == "InvalidLength":
        if right_len and ctx.final():
            return "InvalidLength although the length matches the country's structure"
        return None
    if name == "InvalidStructure":
        if L < 4:
            return None
        head = [H.class_cond(chars[0], "a"), H.class_cond(chars[1], "a"), H.class_cond(chars[2], "n"), H.class_cond(chars[3], "n")]
        body = [H.class_cond(c, k) for c, k in zip(chars[4:], cls)] if right_len else []
        # with a wrong length (or unknown country) a structure error must be about the first four characters
        if ctx.final(z3.And(head + body)):
            return "InvalidStructure although every character fits its position's class"
        return None
    if name == "InvalidChecksumDigits":
        if not right_len:
            return "InvalidChecksumDigits raised before country/length were established" if ctx.final() else None
        conds = [H.class_cond(chars[2], "n"), H.class_cond(chars[3], "n")] + [H.class_cond(c, k) for c, k in zip(chars[4:], cls)]
        if ctx.final(z3.Not(z3.And(conds))):
            return "InvalidChecksumDigits for a text whose characters do not fit the structure"
        ctx.add(z3.And(conds))
        if ctx.final(c01.spec_arith(chars)):
            return "InvalidChecksumDigits although the mod-97 check holds"
        return None
    return f"unexpected error class {name} from plain validation" if ctx.final() else None


def bic_len(L, strict, res):
    holder, seen = {}, set()
    kw = {"enforce_swift_compliance": True} if strict else {}

    def fn():
        chars = [rt.compact_char(f"w{i}") for i in range(L)]
        holder["chars"] = chars
        from schwifty import BIC

        w = H.symstr(chars)
        r1 = _try(lambda: BIC(w, **kw))
        obj = BIC(w, allow_invalid=True)
        r2 = _try(lambda: obj.validate(**kw))
        if strict:
            r3 = ("ret", r1[0] == "ret")  # is_valid has no strict mode; compared in the non-strict job
        else:
            r3 = _try(lambda: obj.is_valid)
        return r1, r2, r3

    def on_path(out):
        chars = holder["chars"]
        res["obligations"] += 1
        if out[0] == "exc":
            bad, r1 = f"BIC(w, allow_invalid=True) raised {type(out[1]).__name__}", out
        else:
            r1, r2, r3 = out[1]
            bad = _agree(r1, r2, r3)
        if bad is None and r1[0] == "exc":
            e = r1[1]
            name = type(e).__name__
            if not H.is_library_exc(e):
                bad = f"non-library exception {name} escaped"
            else:
                bad = bic_label_unsound(L, strict, chars, name)
        if bad is not None:
            if not ctx.final():
                return
            cps = H.model_cps(ctx.model(), chars)
            res["violations"].append({"property": "C05", "what": f"BIC len {L} strict={strict}: {bad}", "call": H.bic_call(cps, **kw), "mode": "violation",
                                      "pred": {"kind": "custom", "module": "spec.replay_preds", "func": "c05_bic"}, "strict": strict, "engine": H.outcome_of(r1)})
            return
        kind = "accept" if r1[0] == "ret" else type(r1[1]).__name__
        if kind not in seen and ctx.witness():
            seen.add(kind)
            cps = H.model_cps(ctx.model(), chars)
            res["witnesses"].append({"property": "C05", "what": f"BIC len {L} strict={strict} {kind}", "call": H.bic_call(cps, **kw), "mode": "witness", "engine": H.outcome_of(r1)})

    rt.explore(fn, on_path)


def bic_label_unsound(L, strict, chars, name):
    if name == "InvalidLength":
        return "InvalidLength for a text of length 8 or 11" if L in (8, 11) and ctx.final() else None
    if L not in (8, 11):
        return f"{name} for a text of wrong length" if ctx.final() else None
    cls_ok = z3.And([in_ranges(H.term_of(c), rs) for c, rs in zip(chars, iso9362.position_classes(L, strict))])
    if name == "InvalidStructure":
        return "InvalidStructure although every character fits its class" if ctx.final(cls_ok) else None
    if name == "InvalidCountryCode":
        a, b = H.term_of(chars[4]), H.term_of(chars[5])
        pair = a * 256 + b
        codes = ranges([ord(k[0]) * 256 + ord(k[1]) for k in iso9362.alpha2_codes()])
        member = z3.Or([z3.And(pair >= lo, pair <= hi) if lo != hi else pair == lo for lo, hi in codes])
        return "InvalidCountryCode for a known ISO 3166-1 alpha-2 code" if ctx.final(member) else None
    return f"unexpected error class {name}" if ctx.final() else None
