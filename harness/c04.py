"""C04 - BIC acceptance is exactly the ISO 9362 structure with a known country code.

For every length 0..14 and both compliance modes the real constructor BIC(w) runs on a symbolic compact string of
arbitrary code points; each path's outcome is proved equal to the reference.  Raw texts: Lemma N on BIC."""
import z3

from harness import common as H
from spec import iso9362
from sx import extmodels, rt  # noqa: F401
from sx.core import ctx
from sx.terms import in_ranges, ranges

MAXLEN = 14
BOUNDS = {"quick": {"lengths": "0..14", "modes": "iso9362, strict swift", "alphabet": "all code points (clean-stable); raw text lemma |t|<=3"},
          "thorough": {"lengths": "0..14", "modes": "iso9362, strict swift", "alphabet": "all code points (clean-stable); raw text lemma |t|<=4"}}
STUBS = ["Pattern.match (generic regex matcher)", "pycountry.countries.get(alpha_2=X): X.lower() in the installed alpha-2 index (table and case folding read from the real package at run start)", "Pattern.sub / str.upper per character"]
ASSUMPTIONS = ["lengths >= 15 take the same first branch (len not in (8, 11)) as lengths 12..14", "ISO 3166-1 alpha-2 set = pycountry's database as installed"]


def jobs(tier, seed):
    out = [{"kind": "len", "L": L, "strict": st} for L in range(0, MAXLEN + 1) for st in (False, True)]
    out += [{"kind": "raw", "n": n} for n in range(0, (4 if tier == "thorough" else 3) + 1)]
    return out


def run_job(job, res):
    if job["kind"] == "raw":
        from harness import lemma_n

        lemma_n.run("schwifty.BIC", job["n"], res, "C04")
        return
    explore_len(job["L"], job["strict"], res)


def spec_cond(chars, strict):
    L = len(chars)
    if L not in (8, 11):
        return z3.BoolVal(False)
    conds = [in_ranges(H.term_of(c), rs) for c, rs in zip(chars, iso9362.position_classes(L, strict))]
    a, b = H.term_of(chars[4]), H.term_of(chars[5])
    pair = a * 256 + b
    codes = ranges([ord(k[0]) * 256 + ord(k[1]) for k in iso9362.alpha2_codes()])
    conds.append(z3.Or([z3.And(pair >= lo, pair <= hi) if lo != hi else pair == lo for lo, hi in codes]))
    return z3.And(conds)


def explore_len(L, strict, res, pid="C04"):
    holder, seen = {}, set()
    kw = {"enforce_swift_compliance": True} if strict else {}

    def fn():
        chars = [rt.compact_char(f"w{i}") for i in range(L)]
        holder["chars"] = chars
        from schwifty import BIC

        return BIC(H.symstr(chars), **kw)

    def on_path(out):
        chars = holder["chars"]
        accepted = out[0] == "ret"
        S = spec_cond(chars, strict)
        res["obligations"] += 1
        bad = None
        if accepted:
            if ctx.final(z3.Not(S)):
                bad = "accepted although the ISO 9362 reference rejects"
        else:
            if ctx.final(S):
                bad = f"rejected ({type(out[1]).__name__}) although the ISO 9362 reference accepts"
        kind = "accept" if accepted else type(out[1]).__name__
        if bad:
            cps = H.model_cps(ctx.model(), chars)
            res["violations"].append(
                {"property": pid, "what": f"len {L} strict={strict}: {bad}", "call": H.bic_call(cps, **kw), "mode": "violation",
                 "pred": {"kind": "custom", "module": "spec.replay_preds", "func": "c04_disagrees"}, "strict": strict, "engine": H.outcome_of(out)}
            )
        elif kind not in seen and ctx.witness():
            seen.add(kind)
            cps = H.model_cps(ctx.model(), chars)
            res["witnesses"].append({"property": pid, "what": f"len {L} strict={strict} {kind}", "call": H.bic_call(cps, **kw), "mode": "witness", "engine": H.outcome_of(out)})

    rt.explore(fn, on_path)
