"""C08 - generated IBANs carry exactly the supplied components, padded, never altered.

Per country with published positions and per length triple (|bank|, |branch|, |account|), IBAN.generate runs on
symbolic component strings over all code points that normalisation maps 1:1 (digits, ASCII upper/lower, other
case-changing and stable code points; whitespace / expanding code points: Lemma N on common.clean).  Per path:
the outcome is a valid IBAN or a library error; on success every component field equals upper(component) left-padded
with zeros (combined bank+branch code split across both fields); an over-long component raises its specific class."""
import random

import z3

from harness import common as H
from harness.c02 import H_try
from harness.c11 import neq
from harness.lemma_n import ref_tables
from spec import table
from sx import rt
from sx.core import ctx
from sx.terms import DIGIT, LOWER, UPPER, PChar, category_ranges, complement, intersect_ranges, merge_ranges, seg_lookup, stable_other_domain, upper_tables

BOUNDS = {"quick": {"countries": "the 19 computing countries + DE, GB + 4 seeded others with positions + 2 without positions + unknown country", "lengths": "full widths; each component one longer, account one shorter (others full); combined bank+branch width", "alphabet": "ASCII digits, ASCII letters of either case and every upper-case-stable code point; whitespace, expanding and non-ASCII case-changing code points are covered by Lemma N on clean() only"},
          "thorough": {"countries": "all", "lengths": "as quick for every country; for the 19 computing countries every component length 0..width+2 (others full) plus 12 seeded triples", "alphabet": "as quick"}}
STUBS = ["str.zfill incl. sign rule", "as C01"]
ASSUMPTIONS = ["IT/SM/FI component characters are digits or non-alphanumeric here (letter patterns: C06-N, C09-A)", "a bank code of combined bank+branch width supplied together with a non-empty branch code is outside the claim (the statement does not say which of the two conflicting inputs wins)",
               "whitespace, expanding and non-ASCII case-changing code points inside components: clean() is covered by Lemma N (C01/C04), their images are then ordinary characters of the alphabet used here"]
MAXTASKS = 20
_dom = {}


def gen_char(name):
    if not _dom:
        segs, multi_r, _ = upper_tables()
        changed = intersect_ranges(merge_ranges([[lo, hi] for lo, hi, d in segs]), complement([[97, 122]]))
        _dom["changed"] = changed
    return PChar(name, [DIGIT, UPPER, LOWER], ("stable", stable_other_domain()))


def widths(cc):
    pos = table.positions(cc)
    w = {}
    for k in ("bank_code", "branch_code", "account_code"):
        a, b = pos.get(k, (0, 0))
        w[k] = b - a
    return w


def jobs(tier, seed):
    from harness.c09 import COMPUTING

    rnd = random.Random(seed)
    out = []
    if tier == "thorough":
        ccs = sorted(table.countries())
    else:
        withpos = [c for c in H.country_jobs(tier, seed) if table.positions(c) and c not in COMPUTING]
        ccs = sorted(set(COMPUTING) | set(rnd.sample(withpos, 4)) | {"DE", "GB"}) + ["AO", "IR"]
    for cc in ccs:
        if not table.positions(cc):
            out.append({"cc": cc, "lens": [[1, 1, 0]]})
            continue
        w = widths(cc)
        full = [w["bank_code"], w["account_code"], w["branch_code"]]
        triples = {tuple(full)}
        every = tier == "thorough" and cc in COMPUTING
        for i, k in enumerate(("bank_code", "account_code", "branch_code")):
            if every:
                cand = list(range(0, w[k] + 3))
            else:
                cand = [w[k] + 1] + ([max(0, w[k] - 1)] if i == 1 else [])
            if i == 0 and w["branch_code"]:
                cand.append(w["bank_code"] + w["branch_code"])
                cand.append(w["bank_code"] + w["branch_code"] + 1)  # longer than the combined width: must raise
            for n in cand:
                t = list(full)
                t[i] = n
                if i == 0 and n == w["bank_code"] + w["branch_code"] and w["branch_code"]:
                    t[2] = 0  # combined bank code: no separate branch code (see ASSUMPTIONS)
                triples.add(tuple(t))
        if every:
            for _ in range(12):
                triples.add((rnd.randint(0, w["bank_code"] + 2), rnd.randint(0, w["account_code"] + 2), rnd.randint(0, w["branch_code"] + 2)))
        for t in sorted(triples):
            out.append({"cc": cc, "lens": [list(t)]})
    out.append({"cc": "ZZ", "lens": [[2, 2, 0]]})
    return out


def run_job(job, res):
    for lb, la, lbr in job["lens"]:
        run_one(job["cc"], lb, la, lbr, res)


def ref_upper(c):
    return seg_lookup(H.term_of(c), ref_tables()["one"], default="self")


def run_one(cc, lb, la, lbr, res):
    known = cc in table.countries()
    pos = table.positions(cc) if known else {}
    holder, seen = {}, set()

    def fn():
        from schwifty import IBAN

        bank = [gen_char(f"k{i}") for i in range(lb)]
        acct = [gen_char(f"a{i}") for i in range(la)]
        br = [gen_char(f"r{i}") for i in range(lbr)]
        if cc in ("IT", "SM", "FI"):
            # these national algorithms fork on digit-vs-letter for every character (try/except in get_index, the width
            # of the Luhn expansion): components are digits or non-alphanumeric here; letter patterns are C09-A / C06-N
            for c in bank + acct + br:
                ctx.add(z3.Not(z3.Or(c.kind("u"), c.kind("l"))))
        holder.update(bank=bank, acct=acct, br=br)
        return IBAN.generate(cc, H.symstr(bank) if bank else "", H.symstr(acct) if acct else "", H.symstr(br) if br else "")

    def on_path(out):
        from schwifty.exceptions import InvalidAccountCode, InvalidBankCode, InvalidBranchCode, SchwiftyException

        bank, acct, br = holder["bank"], holder["acct"], holder["br"]
        res["obligations"] += 1
        bad = None
        w = widths(cc) if pos else None
        too_long = []
        if w:
            if lb > w["bank_code"] and not (lb == w["bank_code"] + w["branch_code"]):
                too_long.append(InvalidBankCode)
            if lbr > w["branch_code"] and not (lb == w["bank_code"] + w["branch_code"] and w["branch_code"]):
                too_long.append(InvalidBranchCode)
            if la > w["account_code"]:
                too_long.append(InvalidAccountCode)
        if out[0] == "exc":
            e = out[1]
            if not isinstance(e, SchwiftyException):
                bad = f"non-library exception {type(e).__name__} escaped"
            elif too_long and not any(isinstance(e, t) for t in too_long):
                bad = f"over-long component reported as {type(e).__name__}"
        else:
            x = out[1]
            if not known or not pos:
                bad = "IBAN generated for an unknown country / a country without published positions"
            elif too_long:
                bad = "over-long component accepted (truncated or dropped)"
            else:
                split = lb == w["bank_code"] + w["branch_code"] and w["branch_code"] > 0
                exp = {}
                up = lambda cs: [ref_upper(c) for c in cs]  # noqa: E731
                if split:
                    ub = up(bank)
                    exp["bank_code"], exp["branch_code"] = ub[: w["bank_code"]], ub[w["bank_code"] :]
                else:
                    exp["bank_code"] = [48] * (w["bank_code"] - lb) + up(bank)
                    exp["branch_code"] = [48] * (w["branch_code"] - lbr) + up(br)
                exp["account_code"] = [48] * (w["account_code"] - la) + up(acct)
                for k, want in exp.items():
                    got = getattr(x, k)
                    c = neq(got, rt.mkstr(want)) if want else (got != "")
                    if c is False:
                        continue
                    if (c is True and ctx.final()) or (c is not True and ctx.final(c)):
                        bad = f"{k} of the generated IBAN is not the supplied value (upper-cased, zero-padded)"
                        break
                if bad is None:
                    r = H_try(lambda: x.validate())
                    if r[0] != "ret":
                        bad = f"generated IBAN does not validate ({type(r[1]).__name__})"
        if bad:
            if not ctx.final():
                return
            m = ctx.model()
            args = [cc, H.cp_enc(H.model_cps(m, bank)), H.cp_enc(H.model_cps(m, acct)), H.cp_enc(H.model_cps(m, br))]
            res["violations"].append({"property": "C08", "what": f"{cc} lens bank={lb} account={la} branch={lbr}: {bad}", "mode": "violation",
                                      "call": {"steps": [["call", "schwifty.IBAN.generate", args, {}]]},
                                      "pred": {"kind": "custom", "module": "spec.replay_preds", "func": "c08_generate"}, "engine": H.outcome_of(out)})
            return
        kind = "ok" if out[0] == "ret" else type(out[1]).__name__
        if kind not in seen and len(seen) < 3 and ctx.witness():
            seen.add(kind)
            m = ctx.model()
            args = [cc, H.cp_enc(H.model_cps(m, bank)), H.cp_enc(H.model_cps(m, acct)), H.cp_enc(H.model_cps(m, br))]
            res["witnesses"].append({"property": "C08", "what": f"{cc} {lb}/{la}/{lbr} {kind}", "mode": "witness", "engine": H.outcome_of(out),
                                     "call": {"steps": [["call", "schwifty.IBAN.generate", args, {}]]}})

    rt.explore(fn, on_path)
