"""C11 - an IBAN or BIC decomposes losslessly into its published fields.

Per country: w symbolic, class-conforming, IBAN(w) accepted (path condition).  On that path the accessors of the real
object are compared (solver, per obligation) with slices of w taken at the *reference* table's positions; the three
top-level parts must concatenate to the compact form; re-assembly from country code and BBAN must give an equal
IBAN.  Per accepted BIC (lengths 8, 11): the four parts concatenate to the compact form."""
import z3

from harness import common as H
from harness.c02 import H_try, bban_chars
from spec import table
from sx import extmodels, rt  # noqa: F401
from sx.core import ctx
from sx.values import SymBool, SymStr

BOUNDS = {"quick": {"countries": "one per distinct table signature", "inputs": "all accepted IBANs of the country; all accepted BICs of every length 0..14"},
          "thorough": {"countries": "all", "inputs": "all accepted IBANs of the country; all accepted BICs of every length 0..14"}}
STUBS = ["as C01 / C04"]
ASSUMPTIONS = ["reference positions = deep merge of the registry files read independently (spec/table.py)"]


def jobs(tier, seed):
    return [{"kind": "iban", "cc": cc} for cc in H.country_jobs(tier, seed)] + [{"kind": "bic", "L": L} for L in range(0, 15)]


def neq(a, b):
    """z3 condition 'a != b' for two (possibly symbolic) strings; True/False when decided syntactically"""
    a = a._s if isinstance(a, rt.StrBase) else a
    b = b._s if isinstance(b, rt.StrBase) else b
    if isinstance(a, str) and isinstance(b, str):
        return a != b
    r = SymStr.of(a) == b
    if isinstance(r, SymBool):
        return z3.Not(r.e)
    return not r


def run_job(job, res):
    if job["kind"] == "bic":
        return run_bic(job["L"], res)
    cc = job["cc"]
    cls = table.classes(cc)
    pos = table.positions(cc)
    holder = {}

    def fn():
        from schwifty import IBAN

        body = [rt.digit_char("dd0"), rt.digit_char("dd1")] + bban_chars(cls)
        chars = [ord(cc[0]), ord(cc[1])] + body
        holder["chars"] = chars
        x = IBAN(H.symstr(chars))
        obs = {"cc": x.country_code, "dd": x.checksum_digits, "bban": x.bban, "compact": x.compact, "str": rt.models.model_str(x)}
        for comp in table.COMPONENTS:
            obs["iban." + comp] = getattr(x, comp)
            obs["bban." + comp] = getattr(x.bban, comp)
        obs["bban.cc"] = x.bban.country_code
        obs["re"] = H_try(lambda: IBAN.from_bban(x.country_code, x.bban))
        return obs

    def on_path(out):
        if out[0] == "exc":
            return
        chars = holder["chars"]
        obs = out[1]
        w = H.symstr(chars)
        bad = []

        def oblige(name, cond):
            res["obligations"] += 1
            if cond is False:
                return
            if cond is True:
                if ctx.final():
                    bad.append(name)
                return
            if ctx.final(cond):
                bad.append(name)

        oblige("country_code + checksum_digits + bban != compact", neq(SymStr.of(obs["cc"]) + obs["dd"] + obs["bban"], obs["compact"]))
        oblige("compact != normalised input", neq(obs["compact"], w))
        oblige("str(iban) != compact", neq(obs["str"], obs["compact"]))
        oblige("country_code wrong", neq(obs["cc"], cc))
        oblige("bban.country_code wrong", neq(obs["bban.cc"], cc))
        oblige("checksum_digits wrong", neq(obs["dd"], H.symstr(chars[2:4])))
        oblige("bban wrong", neq(obs["bban"], H.symstr(chars[4:])))
        for comp in table.COMPONENTS:
            a, b = pos.get(comp, (0, 0))
            want = H.symstr(chars[4 + a : 4 + b]) if (a, b) != (0, 0) else ""
            if not (0 <= a <= b <= len(cls)):
                bad.append(f"published range of {comp} lies outside the BBAN")
                continue
            oblige(f"iban.{comp} differs from the BBAN substring at the published position", neq(obs["iban." + comp], want) if want != "" or obs["iban." + comp] != "" else False)
            oblige(f"bban.{comp} differs from iban.{comp}", neq(obs["bban." + comp], obs["iban." + comp]))
        rs = sorted((a, b, k) for k, (a, b) in pos.items() if (a, b) != (0, 0))
        for (a1, b1, k1), (a2, b2, k2) in zip(rs, rs[1:]):
            if a2 < b1:
                bad.append(f"published fields {k1} and {k2} overlap")
        if obs["re"][0] == "exc":
            oblige(f"from_bban(country_code, bban) raised {type(obs['re'][1]).__name__}", True)
        else:
            oblige("from_bban(country_code, bban) != iban", neq(obs["re"][1], w))
        if bad:
            if not ctx.final():
                return
            cps = H.model_cps(ctx.model(), chars)
            res["violations"].append({"property": "C11", "what": f"{cc}: " + "; ".join(bad[:3]), "call": H.iban_call(cps), "mode": "violation", "cc": cc,
                                      "pred": {"kind": "custom", "module": "spec.replay_preds", "func": "c11_iban"}, "engine": {"outcome": "return"}})
        elif "wit" not in holder and ctx.witness():
            holder["wit"] = 1
            cps = H.model_cps(ctx.model(), chars)
            res["witnesses"].append({"property": "C11", "what": f"{cc} accepted", "call": H.iban_call(cps), "mode": "witness", "engine": {"outcome": "return"}})

    rt.explore(fn, on_path)


def run_bic(L, res):
    holder = {}

    def fn():
        from schwifty import BIC

        chars = [rt.compact_char(f"w{i}") for i in range(L)]
        holder["chars"] = chars
        x = BIC(H.symstr(chars))
        return {"bank": x.bank_code, "cc": x.country_code, "loc": x.location_code, "br": x.branch_code, "compact": x.compact}

    def on_path(out):
        if out[0] == "exc":
            return
        chars, o = holder["chars"], out[1]
        bad = []
        checks = [
            ("bank_code + country_code + location_code + branch_code != compact", neq(SymStr.of(o["bank"]) + o["cc"] + o["loc"] + o["br"], o["compact"])),
            ("compact != input", neq(o["compact"], H.symstr(chars))),
            ("bank_code wrong", neq(o["bank"], H.symstr(chars[0:4]))),
            ("country_code wrong", neq(o["cc"], H.symstr(chars[4:6]))),
            ("location_code wrong", neq(o["loc"], H.symstr(chars[6:8]))),
            ("branch_code wrong", neq(o["br"], H.symstr(chars[8:11]) if L > 8 else "")),
        ]
        for name, cond in checks:
            res["obligations"] += 1
            if cond is False:
                continue
            if (cond is True and ctx.final()) or (cond is not True and ctx.final(cond)):
                bad.append(name)
        if bad:
            cps = H.model_cps(ctx.model(), chars)
            res["violations"].append({"property": "C11", "what": f"BIC len {L}: " + "; ".join(bad[:3]), "call": H.bic_call(cps), "mode": "violation",
                                      "pred": {"kind": "custom", "module": "spec.replay_preds", "func": "c11_bic"}, "engine": {"outcome": "return"}})
        elif "wit" not in holder and ctx.witness():
            holder["wit"] = 1
            res["witnesses"].append({"property": "C11", "what": f"BIC len {L} accepted", "call": H.bic_call(H.model_cps(ctx.model(), chars)), "mode": "witness", "engine": {"outcome": "return"}})

    rt.explore(fn, on_path)
