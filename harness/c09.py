"""C09 - computed national check digits validate; parsing and rebuilding round-trips.

A: for the 19 countries that keep computed national check digits in a dedicated field, BBAN.from_components runs on
   symbolic class-conforming components of exact field width; wherever it returns, validate_national_checksum() on
   the result must return True, the digits must have the field's width, and IBAN.generate(...) of the same
   components must pass validate(validate_bban=True).
B: per country with published positions, for a symbolic structure-conforming BBAN b (computing countries: with the
   path condition that the national check passes), BBAN.from_components(cc, **components read off b) must equal b at
   every position that belongs to a component; positions belonging to none must be '0' or are reported as reserved."""
import z3

from harness import common as H
from harness.c02 import H_try, bban_chars
from harness.c11 import neq
from spec import table
from sx import rt
from sx.core import ctx

COMPUTING = ["BE", "BA", "ES", "FR", "MC", "IT", "SM", "FI", "NO", "PL", "EE", "PT", "RS", "ME", "MK", "SI", "TL", "MR", "TN"]
BOUNDS = {"quick": {"A": "19 computing countries, all class-conforming components of exact width (IT/SM: numeric account + all-letter account)", "B": "one country per table signature with positions, all structure-conforming (nationally valid) BBANs"},
          "thorough": {"A": "as quick plus IT/SM with 64 seeded account kind patterns", "B": "all countries with positions"}}
STUBS = ["as C06"]
ASSUMPTIONS = ["B is stated at BBAN level; that IBAN-level national validation is the BBAN-level check is C06",
               "German BBANs are rebuilt without the national-validity precondition (rebuilding does not depend on it there)"]
MAXTASKS = 30


def jobs(tier, seed):
    import random

    out = []
    for cc in COMPUTING:
        if cc in ("IT", "SM"):
            pats = [0, 4095] + ([random.Random(seed).randrange(4096) for _ in range(64)] if tier == "thorough" else [])
            out.append({"kind": "A", "cc": cc, "pats": pats})
        else:
            out.append({"kind": "A", "cc": cc})
    for cc in H.country_jobs(tier, seed):
        if table.positions(cc):
            out.append({"kind": "B", "cc": cc})
    return out


def run_job(job, res):
    if job["kind"] == "A":
        for p in job.get("pats", [None]):
            run_a(job["cc"], p, res)
    else:
        run_b(job["cc"], res)


def comp_slices(cc):
    pos = table.positions(cc)
    return {k: pos[k] for k in ("bank_code", "branch_code", "account_code") if k in pos and pos[k] != (0, 0)}


def run_a(cc, pattern, res):
    cls = table.classes(cc)
    sl = comp_slices(cc)
    pos = table.positions(cc)
    holder, seen = {}, set()

    def fn():
        from schwifty import IBAN
        from schwifty.bban import BBAN

        b = bban_chars(cls)
        if pattern is not None:
            a0, _ = pos["account_code"]
            for i in range(12):
                c = b[a0 + i]
                ctx.add(c.guards[0] if not (pattern >> i) & 1 else z3.Not(c.guards[0]))
        kw = {k: H.symstr(b[a:e]) for k, (a, e) in sl.items()}
        holder.update(b=b, kw={k: b[a:e] for k, (a, e) in sl.items()})
        x = BBAN.from_components(cc, **kw)
        r = H_try(lambda: x.validate_national_checksum())
        g = H_try(lambda: IBAN.generate(cc, kw.get("bank_code", ""), kw.get("account_code", ""), kw.get("branch_code", "")))
        gv = H_try(lambda: g[1].validate(validate_bban=True)) if g[0] == "ret" else None
        return x, r, g, gv

    def on_path(out):
        if out[0] == "exc":
            from schwifty.exceptions import SchwiftyException

            res["obligations"] += 1
            if not isinstance(out[1], SchwiftyException) and ctx.final():
                report(f"from_components raised non-library {type(out[1]).__name__}", out)
            return
        x, r, g, gv = out[1]
        res["obligations"] += 3
        bad = None
        if len(rt.SymStr.of(x._s)) != len(cls):
            bad = "BBAN built from components has the wrong length (check digits not of field width)"
        elif r[0] != "ret" or r[1] is not True:
            bad = f"check digits computed by from_components do not validate ({H.outcome_of(r)})"
        elif g[0] != "ret":
            bad = f"IBAN.generate raised {type(g[1]).__name__} although from_components succeeded"
        elif gv[0] != "ret":
            bad = f"generated IBAN fails national validation ({type(gv[1]).__name__})"
        else:
            for k, chars in holder["kw"].items():
                c = neq(getattr(x, k), H.symstr(chars))
                if c is not False and ((c is True and ctx.final()) or (c is not True and ctx.final(c))):
                    bad = f"{k} of the built BBAN differs from the supplied component"
                    break
        if bad:
            if ctx.final():
                report(bad, out)
        elif "w" not in seen and ctx.witness():
            seen.add("w")
            m = ctx.model()
            kwc = {k: H.cp_enc(H.model_cps(m, v)) for k, v in holder["kw"].items()}
            res["witnesses"].append({"property": "C09", "what": f"{cc} from_components validates", "mode": "witness", "engine": {"outcome": "return", "value": True},
                                     "call": {"steps": [["call", "schwifty.bban.BBAN.from_components", [cc], kwc], ["method", "validate_national_checksum"]]}})

    def report(what, out):
        m = ctx.model()
        kwc = {k: H.cp_enc(H.model_cps(m, v)) for k, v in holder["kw"].items()}
        res["violations"].append({"property": "C09", "what": f"{cc}: {what}", "mode": "violation", "cc": cc, "kw": kwc,
                                  "call": {"steps": [["call", "spec.replay_preds.c09_build", [cc, kwc], {}]]},
                                  "pred": {"kind": "value_is_not", "value": {"cp": [111, 107]}}, "engine": H.outcome_of(out)})

    rt.explore(fn, on_path)


def run_b(cc, res):
    cls = table.classes(cc)
    pos = {k: v for k, v in table.positions(cc).items() if v != (0, 0)}
    computing = cc in COMPUTING
    holder = {}

    def fn():
        from schwifty.bban import BBAN

        b = bban_chars(cls)
        if cc in ("IT", "SM"):
            a0, _ = pos["account_code"]
            for i in range(12):
                ctx.add(b[a0 + i].guards[0])
        holder["b"] = b
        x = BBAN(cc, H.symstr(b))
        if computing:
            x.validate_national_checksum()  # rejecting paths end here: outside the quantifier
        kw = {k: getattr(x, k) for k in table.COMPONENTS}
        return BBAN.from_components(cc, **kw)

    def on_path(out):
        from schwifty.exceptions import SchwiftyException

        b = holder["b"]
        res["obligations"] += 1
        if out[0] == "exc":
            e = out[1]
            if computing and isinstance(e, SchwiftyException) and type(e).__name__ in ("InvalidBBANChecksum", "InvalidAccountCode"):
                return
            bad = f"rebuilding raised {type(e).__name__}"
            cond = None
        else:
            y = rt.SymStr.of(out[1]._s)._dense().p
            covered = set()
            for a, e in pos.values():
                covered.update(range(a, e))
            bad, cond = None, None
            if len(y) != len(b):
                bad = "rebuilt BBAN has a different length"
            else:
                diffs = [rt.zc(y[i]) != H.term_of(b[i]) for i in sorted(covered)]
                diffs = [d for d in (z3.simplify(d) for d in diffs) if not z3.is_false(d)]
                if diffs and ctx.final(z3.Or(diffs)):
                    bad = "rebuilt BBAN differs from the original at a component position"
                    cond = True
                else:
                    free = [i for i in range(len(b)) if i not in covered]
                    if free:
                        res["notes"].append(f"{cc}: reserved filler positions {free} belong to no component")
                        nz = [rt.zc(y[i]) != 48 for i in free]
                        nz = [d for d in (z3.simplify(d) for d in nz) if not z3.is_false(d)]
                        if nz and ctx.final(z3.Or(nz)):
                            bad = "a reserved filler position of the rebuilt BBAN is not '0'"
                            cond = True
        if bad:
            if cond is None and not ctx.final():
                return
            cps = H.model_cps(ctx.model(), b)
            res["violations"].append({"property": "C09", "what": f"{cc}: {bad}", "mode": "violation", "cc": cc,
                                      "call": {"steps": [["call", "spec.replay_preds.c09_rebuild", [cc, H.cp_enc(cps)], {}]]},
                                      "pred": {"kind": "value_is_not", "value": {"cp": [111, 107]}}, "engine": H.outcome_of(out)})
        elif "w" not in holder and ctx.witness():
            holder["w"] = 1
            cps = H.model_cps(ctx.model(), b)
            res["witnesses"].append({"property": "C09", "what": f"{cc} rebuild", "mode": "witness", "engine": {"outcome": "return", "value": {"cp": [111, 107]}},
                                     "call": {"steps": [["call", "spec.replay_preds.c09_rebuild", [cc, H.cp_enc(cps)], {}]]}})

    rt.explore(fn, on_path)
