"""C03 - every single typing error in a valid IBAN is detected.

Per country and per position j >= 2: w is a symbolic class-conforming string with IBAN(w) accepted (path condition);
w' is w with position j replaced by a fresh character of the same kind (digit/digit, letter/letter) and different
value, or with positions j, j+1 swapped (same kind, different values).  The real pipeline runs on w and on w'; the
path on which both are accepted must be infeasible (unsat)."""
import random

import z3

from harness import common as H
from harness.c02 import H_try, bban_chars
from spec import table
from sx import rt
from sx.core import ctx
from sx.terms import PChar

BOUNDS = {"quick": {"countries": "one per distinct per-position class string of the effective table", "positions": "first, last, both sides of every token boundary, 1 seeded interior position per token; substitution and adjacent transposition (the check-digit/BBAN boundary swap of digit-or-letter structures for a seeded third of them)"},
          "thorough": {"countries": "all", "positions": "every position >= 2 for structures without digit-or-letter tokens; for the others token boundaries, first/last and 3 seeded interior positions per token (each position is case-split over the expanded width of what follows); substitution and adjacent transposition"}}
STUBS = ["as C01"]
ASSUMPTIONS = ["kind-changing errors are outside the statement (rejected by the class check: C01)"]
MAXTASKS = 20


def positions_for(cc, tier, seed):
    cls = "nn" + table.classes(cc)  # positions 2.. of the IBAN
    n = len(cls)
    if tier == "thorough" and "c" not in cls:
        return list(range(n))
    rnd = random.Random(f"{seed}-{cc}")
    k_inner = 3 if tier == "thorough" else 1
    pick = {0, 1, 2, n - 1}
    start = 2
    i = 2
    while i <= n:
        if i == n or cls[i] != cls[start]:
            pick.update({start, i - 1})
            inner = list(range(start + 1, i - 1))
            pick.update(rnd.sample(inner, min(k_inner, len(inner))))
            start = i
        i += 1
    return sorted(p for p in pick if 0 <= p < n)


def jobs(tier, seed):
    out = []
    ccs = H.country_jobs(tier, seed)
    if tier != "thorough":
        # the error-detection argument only depends on the per-position classes: one country per class string
        groups = {}
        for cc in sorted(table.countries()):
            groups.setdefault(table.classes(cc), []).append(cc)
        rnd0 = random.Random(seed)
        ccs = sorted(rnd0.choice(g) for g in groups.values())
    for cc in ccs:
        ps = positions_for(cc, tier, seed)
        heavy = "c" in table.classes(cc)  # boundary swap with symbolic widths: minutes per job
        rnd = random.Random(f"{seed}-heavy-{cc}")
        for j in ps:
            out.append({"cc": cc, "j": j, "kind": "sub"})
            if j == 1 and heavy and tier != "thorough" and rnd.random() > 0.34:
                continue
            out.append({"cc": cc, "j": j, "kind": "swap"})
    return out


def same_kind_fresh(c, name):
    """fresh character with the same kind guards as c and fresh offsets"""
    return PChar(name, c.classes, None, share=c)


def run_job(job, res):
    cc, j, kind = job["cc"], job["j"], job["kind"]
    cls = table.classes(cc)
    n = len(cls) + 2
    if kind == "swap" and j + 1 >= n:
        return
    holder = {}

    def fn():
        from schwifty import IBAN

        body = [rt.digit_char("dd0"), rt.digit_char("dd1")] + bban_chars(cls)
        w2 = list(body)
        if kind == "sub":
            x = same_kind_fresh(body[j], "x")
            ctx.assume(x.term != body[j].term)
            w2[j] = x
        else:
            a, b = body[j], body[j + 1]
            ka = a.kind("d") if len(a.classes) > 1 else z3.BoolVal(a.classes[0][0] == "d")
            kb = b.kind("d") if len(b.classes) > 1 else z3.BoolVal(b.classes[0][0] == "d")
            ctx.assume(z3.And(ka == kb, a.term != b.term))
            w2[j], w2[j + 1] = b, a
        holder.update(w=body, w2=w2)
        # the weight of the affected digit(s) in the rearranged number is 10^(expanded width of what follows); with
        # digit-or-letter positions that width is symbolic.  Case-split on it (digits = 1, letters = 2) so that the
        # weights are concrete in every query: for BBAN positions the suffix after the affected characters, for the
        # check digits (which move behind the BBAN) the whole BBAN.
        first = j if kind == "sub" else j
        tail_from = 2 if first < 2 or (kind == "swap" and j == 1) else (j + 1 if kind == "sub" else j + 2)
        ws = [z3.If(c.guards[0], 1, 2) for c in body[tail_from:] if len(c.classes) > 1]
        if (kind == "sub" and j < 2) or (kind == "swap" and j == 0):
            ws = []  # only the check digits change: their weights (10, 1) do not depend on the BBAN
        if ws:
            W = z3.Sum(ws)
            ctx.choose_n([W == v for v in range(len(ws), 2 * len(ws) + 1)])
        pre = [ord(cc[0]), ord(cc[1])]
        IBAN(H.symstr(pre + body))  # must be accepted; rejecting paths end here
        r = H_try(lambda: IBAN(H.symstr(pre + w2)))
        return r[0] == "ret"

    def on_path(out):
        if out[0] == "exc":
            return  # first IBAN rejected: outside the quantifier
        res["obligations"] += 1
        if out[1] and ctx.final():
            m = ctx.model()
            pre = [ord(cc[0]), ord(cc[1])]
            a, b = pre + H.model_cps(m, holder["w"]), pre + H.model_cps(m, holder["w2"])
            res["violations"].append({"property": "C03", "what": f"{cc} position {j + 2} {kind}: a single typing error of a valid IBAN is accepted",
                                      "call": H.iban_call(b), "orig": H.cp_enc(a), "mode": "violation", "kindv": kind,
                                      "pred": {"kind": "custom", "module": "spec.replay_preds", "func": "c03_both_accepted"}, "engine": {"outcome": "return"}})
        elif not out[1] and "wit" not in holder and kind == "sub" and ctx.witness():
            holder["wit"] = True
            m = ctx.model()
            pre = [ord(cc[0]), ord(cc[1])]
            res["witnesses"].append({"property": "C03", "what": f"{cc} position {j + 2} valid original", "call": H.iban_call(pre + H.model_cps(m, holder["w"])), "mode": "witness", "engine": {"outcome": "return"}})

    rt.explore(fn, on_path)
