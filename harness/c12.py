"""C12 - bank-code <-> BIC look-ups agree with the bundled registry and with each other.

A (any registry contents, bounded): a bank list of k <= 2 (thorough 3) entries is chosen by engine forks from
   pools (country, bank code incl. empty, BIC incl. empty / 8 / 11 / XXX forms, primary flag), installed with the
   real registry.save, indexed by the real build_index calls, and queried through the real API for every pair of the
   pools; every answer is compared with the reference semantics (spec/registry_ref.py).
B (bundled registry): per country with banks and per listed code (an engine fork per code; the other BBAN characters
   are symbolic) 
   iban.bic / bank / bank_name, BIC.candidates_from_bank_code, BIC.from_bank_code and the reverse look-ups of every
   candidate are compared with the reference; a symbolic key constrained to be unlisted must give None / InvalidBankCode."""
import itertools
import random

import z3

from harness import common as H
from harness.c02 import H_try, bban_chars
from harness.c17 import key_fields
from spec import registry_ref as R
from spec import table
from sx import extmodels, rt  # noqa: F401
from sx.core import ctx

BOUNDS = {"quick": {"A": "all bank lists of <= 2 entries over the pools (2 countries, codes {'', '1', '2'}, 5 BIC forms, primary flag) x all 4 query pairs", "B": "every country with banks: a seeded 25% of the 250-code chunks (at least one per country) + the unlisted case"},
          "thorough": {"A": "<= 3 entries (third entry over reduced pools)", "B": "all chunks of all countries + the unlisted case"}}
STUBS = ["registry look-up by symbolic key: merged alternatives, forked per distinct row set", "A: registry contents are concrete values chosen by engine forks (the solver only decides reachability); stated plainly"]
ASSUMPTIONS = ["the tie-break among several generic candidates (lexicographically greatest) is not demanded, only the relation of the statement"]
MAXTASKS = 20
CHUNK = 250
POOL_CC = ["DE", "FR"]
POOL_CODE = ["", "1", "2"]
POOL_BIC = ["", "AAAADEAA", "AAAADEAAXXX", "BBBBDEBBXXX", "CCCCDECCABC", "BBBBDEBB"]


def jobs(tier, seed):
    rnd = random.Random(seed)
    out = []
    for k in (0, 1, 2):
        if k < 2:
            out.append({"kind": "A", "k": k, "pin": []})
        else:
            for p in range(len(POOL_CC) * len(POOL_CODE)):
                out.append({"kind": "A", "k": 2, "pin": [p // len(POOL_CODE), p % len(POOL_CODE)]})
    if tier == "thorough":
        for p in range(len(POOL_CC) * len(POOL_CODE)):
            for b in range(len(POOL_BIC)):
                out.append({"kind": "A", "k": 3, "pin": [p // len(POOL_CODE), p % len(POOL_CODE), b]})
    idx = R.by_code(table.banks(), True)
    per = {}
    for (cc, code) in idx:
        per.setdefault(cc, []).append(code)
    for cc in sorted(per):
        if cc not in table.countries():
            continue
        codes = sorted(per[cc])
        chunks = [[i, i + CHUNK] for i in range(0, len(codes), CHUNK)]
        pick = chunks if tier == "thorough" else sorted(rnd.sample(chunks, max(1, len(chunks) // 4)))
        for c in pick:
            out.append({"kind": "B", "cc": cc, "chunk": c})
        out.append({"kind": "B-unlisted", "cc": cc})
    return out


def run_job(job, res):
    if job["kind"] == "A":
        run_a(job["k"], job["pin"], res)
    elif job["kind"] == "B":
        run_b(job["cc"], job["chunk"], res)
    else:
        run_b(job["cc"], None, res)


def check_pair(BIC, banks, cc, code, cache=False):
    """None or a description of the first disagreement with the reference for one (country, code) query"""
    from schwifty.exceptions import InvalidBankCode

    idx, bidx = R.by_code(banks, cache), R.by_bic(banks, cache)
    want = R.candidates(idx, cc, code)
    r = H_try(lambda: BIC.candidates_from_bank_code(cc, code))
    if want is None:
        if not (r[0] == "exc" and isinstance(r[1], InvalidBankCode)):
            return f"candidates for unlisted pair ({cc},{code!r}): {H.outcome_of(r)}"
    else:
        if r[0] != "ret" or [str(x) for x in r[1]] != want:
            return f"candidates for ({cc},{code!r}) are {[str(x) for x in r[1]] if r[0] == 'ret' else H.outcome_of(r)}, registry lists {want}"
        for c in r[1]:
            if code not in c.domestic_bank_codes or not c.exists:
                return f"candidate {c!s} does not list bank code {code!r} / does not exist"
            if c.domestic_bank_codes != R.values_for_bic(bidx, str(c), "bank_code") or c.bank_names != R.values_for_bic(bidx, str(c), "name") or c.bank_short_names != R.values_for_bic(bidx, str(c), "short_name"):
                return f"reverse look-up of {c!s} differs from the registry"
    s = H_try(lambda: BIC.from_bank_code(cc, code))
    if not want:
        if not (s[0] == "exc" and isinstance(s[1], InvalidBankCode)):
            return f"from_bank_code for a pair without BIC ({cc},{code!r}): {H.outcome_of(s)}"
    elif s[0] != "ret" or not R.chosen_ok(want, str(s[1])):
        return f"from_bank_code({cc},{code!r}) chose {str(s[1]) if s[0] == 'ret' else H.outcome_of(s)} among {want}"
    return None


def run_a(k, pin, res):
    from schwifty import registry
    from schwifty.bic import BIC

    saved = {n: registry._registry.get(n) for n in ("bank", "bic", "bank_code", "country")}
    holder = {}
    pin = list(pin)

    def pick(n, pins):
        if pins:
            return pins.pop(0)
        return ctx.choose_free(n)

    def fn():
        pins = list(pin)
        banks = []
        for i in range(k):
            cc = POOL_CC[pick(len(POOL_CC), pins)]
            code = POOL_CODE[pick(len(POOL_CODE), pins)]
            bic = POOL_BIC[pick(len(POOL_BIC), pins)]
            prim = bool(pick(2, pins))
            banks.append({"country_code": cc, "primary": prim, "bic": bic, "bank_code": code, "name": f"N{i}", "short_name": f"S{i % 2}"})
        holder["banks"] = banks
        registry.save("bank", [dict(b) for b in banks])
        registry.build_index("bank", index_name="bic", key="bic", accumulate=True)
        registry.build_index("bank", index_name="bank_code", key=("country_code", "bank_code"), accumulate=True)
        registry.build_index("bank", "country", key="country_code", accumulate=True)
        for cc, code in itertools.product(POOL_CC, POOL_CODE[1:]):
            bad = check_pair(BIC, banks, cc, code)
            if bad:
                return bad
        return None

    def on_path(out):
        res["obligations"] += 1
        bad = out[1] if out[0] == "ret" else f"harness call raised {type(out[1]).__name__}"
        if bad:
            res["violations"].append({"property": "C12", "what": f"registry {holder['banks']}: {bad}"[:600], "mode": "violation",
                                      "call": {"steps": [["call", "spec.replay_preds.c12_registry", [__import__("json").dumps(holder["banks"])], {}]]},
                                      "pred": {"kind": "value_is_not", "value": {"cp": [111, 107]}}, "engine": {"outcome": "return"}})
        elif holder.get("w", 0) < 2 and k and any(b["bic"] and b["bank_code"] for b in holder["banks"]):
            holder["w"] = holder.get("w", 0) + 1
            res["witnesses"].append({"property": "C12", "what": f"registry of {k} entries", "mode": "witness", "engine": {"outcome": "return", "value": {"cp": [111, 107]}},
                                     "call": {"steps": [["call", "spec.replay_preds.c12_registry", [__import__("json").dumps(holder["banks"])], {}]]}})

    try:
        rt.explore(fn, on_path)
    finally:
        for n, v in saved.items():
            if v is not None:
                registry._registry[n] = v


def run_b(cc, chunk, res):
    from schwifty.bic import BIC

    banks = table.banks()
    idx = R.by_code(banks, True)
    codes = sorted(code for (c, code) in idx if c == cc)
    cls = table.classes(cc)
    kf = key_fields(cc)
    holder = {}
    if chunk is not None:
        codes_here = [c for c in codes[chunk[0] : chunk[1]] if len(c) == len(kf)]
        if not codes_here:
            return

    def fn():
        from schwifty import IBAN

        b = bban_chars(cls)
        if cc in ("IT", "SM"):
            for c in b[11:]:
                ctx.add(c.guards[0])
        holder["b"] = b
        key = [b[j] for j in kf]
        eqs = lambda cs: z3.Or([z3.And([H.term_of(c) == ord(ch) for c, ch in zip(key, code)]) for code in cs])  # noqa: E731
        if chunk is not None:
            # one path per listed code of the chunk (engine fork); every other BBAN character stays symbolic
            code0 = codes_here[ctx.choose_free(len(codes_here))]
            for j, ch in zip(kf, code0):
                b[j] = ord(ch)
        else:
            fit = [c for c in codes if len(c) == len(kf)]
            if fit:
                ctx.add(z3.Not(eqs(fit)))
        x = IBAN.from_bban(cc, H.symstr(b))
        bank = rt.demerge(x.bank)
        if bank is None:
            return "unlisted", H_try(lambda: x.bic), x.bank_name, x.bank_short_name, None
        code = bank["bank_code"]
        return "listed", code, H_try(lambda: x.bic), x.bank_name, x.bank_short_name, bank, check_pair(BIC, banks, cc, code, True)

    def on_path(out):
        res["obligations"] += 1
        b = holder["b"]
        bad = None
        if out[0] == "exc":
            bad = f"IBAN of a listed bank cannot be built/looked up: {type(out[1]).__name__}"
        elif out[1][0] == "unlisted":
            _, bic, name, short, _ = out[1]
            if chunk is not None:
                bad = "a listed bank is not found from its IBAN"
            elif not (bic[0] == "ret" and bic[1] is None and name is None and short is None):
                bad = "an unlisted bank yields a BIC / bank name"
        else:
            _, code, bic, name, short, bank, pair_bad = out[1]
            first = idx[(cc, code)][0]
            want_c = R.candidates(idx, cc, code)
            if chunk is None:
                bad = f"a bank was found for a code outside the registry ({code!r})"
            elif pair_bad:
                bad = pair_bad
            elif bank != first:
                bad = f"iban.bank is not the first registry entry for ({cc},{code!r})"
            elif rt.demerge(name) != first["name"] or rt.demerge(short) != first["short_name"]:
                bad = "iban.bank_name / bank_short_name differ from the registry entry"
            elif want_c and not (bic[0] == "ret" and bic[1] is not None and R.chosen_ok(want_c, str(bic[1]))):
                bad = f"iban.bic {H.outcome_of(bic)} is not a permitted choice among {want_c}"
            elif not want_c and not (bic[0] == "ret" and bic[1] is None):
                bad = "iban.bic is not None although the registry lists no BIC for the bank"
        if bad:
            if not ctx.final():
                return
            cps = H.model_cps(ctx.model(), b)
            res["violations"].append({"property": "C12", "what": f"{cc}: {bad}"[:500], "mode": "violation",
                                      "call": {"steps": [["call", "spec.replay_preds.c12_iban", [cc, H.cp_enc(cps)], {}]]},
                                      "pred": {"kind": "value_is_not", "value": {"cp": [111, 107]}}, "engine": {"outcome": "return"}})
        elif holder.get("w", 0) < 2 and ctx.witness():
            holder["w"] = holder.get("w", 0) + 1
            cps = H.model_cps(ctx.model(), b)
            res["witnesses"].append({"property": "C12", "what": f"{cc} look-ups", "mode": "witness", "engine": {"outcome": "return", "value": {"cp": [111, 107]}},
                                     "call": {"steps": [["call", "spec.replay_preds.c12_iban", [cc, H.cp_enc(cps)], {}]]}})

    rt.explore(fn, on_path)
