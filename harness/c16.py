"""C16 - IBAN, BIC and BBAN are string values: equality, hashing, order and copies agree.

A: for two symbolic raw texts (lengths 0..n each, characters: ASCII digits / letters of either case / any other
   clean-stable code point) wrapped as IBAN / BIC / BBAN (validation off) / plain str, the six comparison operators
   of the real classes (incl. the functools.total_ordering wrappers) are proved equal to the operator on the
   reference-normalised strings, and hash(X) is the hash of the compact string.
B: for an object of each class with symbolic content, copy.copy, copy.deepcopy and the reduce/reconstruct round
   trip that pickle performs run for real (copy / copyreg are pure Python); the result must be of the same class with
   equal payload, country and components; a raising path is a violation (replayed with the real copy / pickle)."""
import z3

from harness import common as H
from harness.c02 import H_try, bban_chars
from harness.c11 import neq
from harness.lemma_n import ref_tables
from spec import table
from sx import extmodels, rt  # noqa: F401
from sx.core import ctx
from sx.terms import DIGIT, LOWER, UPPER, PChar, seg_lookup, stable_other_domain
from sx.values import SymBool, SymStr

KINDS = ["IBAN", "BIC", "BBAN", "str"]
BOUNDS = {"quick": {"A": "all 16 kind pairs x text lengths 0..2 each", "B": "valid IBAN (DE, IT with bban attribute), invalid IBAN / BIC / BBAN of symbolic content (length 0..6)"},
          "thorough": {"A": "all 16 kind pairs x text lengths 0..3 each", "B": "as quick, lengths 0..10"}}
STUBS = ["hash of a symbolic string = uninterpreted function of its content", "object.__reduce_ex__ of a str subclass = (copyreg.__newobj__, (cls, *__getnewargs__()), instance dict), or the class's own __reduce__ / __getstate__ when it overrides them", "pickle = reduce/reconstruct contract (byte format not modelled)"]
ASSUMPTIONS = ["whitespace / expanding characters in the compared texts: normalisation is Lemma N (C01/C04); comparison semantics do not depend on how the payload was obtained"]
MAXTASKS = 40


def txt_char(name):
    return PChar(name, [DIGIT, UPPER, LOWER], ("stable", stable_other_domain()))


def jobs(tier, seed):
    n = 3 if tier == "thorough" else 2
    out = [{"kind": "A", "ka": ka, "kb": kb, "la": la, "lb": lb} for ka in KINDS for kb in KINDS for la in range(n + 1) for lb in range(n + 1)]
    m = 10 if tier == "thorough" else 6
    out += [{"kind": "B", "cls": c, "L": L} for c in ("IBAN", "BIC", "BBAN") for L in range(0, m + 1)]
    out += [{"kind": "B-valid", "cc": cc} for cc in ("DE", "IT", "GB")]
    out += [{"kind": "B-list", "L": L, "same": sm} for L in (0, 3, 8) for sm in (False, True)]
    return out


def run_job(job, res):
    if job["kind"] == "A":
        run_a(job, res)
    elif job["kind"] == "B-list":
        run_b_list(job["L"], res, job.get("same", False))
    elif job["kind"] == "B":
        run_b(job["cls"], job["L"], None, res)
    else:
        run_b("IBAN", None, job["cc"], res)


def wrap(kind, s):
    import schwifty
    from schwifty.bban import BBAN

    if kind == "IBAN":
        return schwifty.IBAN(s, allow_invalid=True)
    if kind == "BIC":
        return schwifty.BIC(s, allow_invalid=True)
    if kind == "BBAN":
        return BBAN("DE", s)
    return s


def norm_terms(chars):
    return [seg_lookup(c.term, ref_tables()["one"], default="self") for c in chars]


OPS = [("==", lambda a, b: a == b), ("!=", lambda a, b: a != b), ("<", lambda a, b: a < b), ("<=", lambda a, b: a <= b), (">", lambda a, b: a > b), (">=", lambda a, b: a >= b)]


def zb(x):
    return x.e if isinstance(x, SymBool) else z3.BoolVal(bool(x))


def run_a(job, res):
    ka, kb, la, lb = job["ka"], job["kb"], job["la"], job["lb"]
    holder = {}

    def fn():
        a = [txt_char(f"a{i}") for i in range(la)]
        b = [txt_char(f"b{i}") for i in range(lb)]
        holder.update(a=a, b=b)
        X, Y = wrap(ka, H.symstr(a)), wrap(kb, H.symstr(b))
        got = {}
        for name, op in OPS:
            r = op(X, Y)
            if r is NotImplemented:
                raise TypeError(f"{name} not supported")
            got[name] = r
        hx = rt.call(hash, X) if ka != "str" else None
        return got, hx

    def on_path(out):
        a, b = holder["a"], holder["b"]
        res["obligations"] += 7
        if out[0] == "exc":
            bad = f"comparison raised {type(out[1]).__name__}"
        else:
            got, hx = out[1]
            # reference: operators on the normalised (plain strings keep their text) contents
            ra = rt.mkstr(norm_terms(a) if ka != "str" else [c.term for c in a])
            rb = rt.mkstr(norm_terms(b) if kb != "str" else [c.term for c in b])
            sa, sb = SymStr.of(ra), SymStr.of(rb)
            eq = rt.str_eq(sa, sb)
            lt, gt = rt.str_lt(sa, sb), rt.str_lt(sb, sa)
            want = {"==": zb(eq), "!=": z3.Not(zb(eq)), "<": zb(lt), "<=": z3.Not(zb(gt)), ">": zb(gt), ">=": z3.Not(zb(lt))}
            bad = None
            for name, _ in OPS:
                g = got[name]
                if not isinstance(g, (bool, SymBool)):
                    bad = f"{name} returned a non-boolean {type(g).__name__}"
                    break
                c = z3.simplify(zb(g) != want[name])
                if not z3.is_false(c) and ctx.final(c):
                    bad = f"{ka} {name} {kb} differs from the comparison of the compact strings"
                    break
            if bad is None and hx is not None:
                if isinstance(hx, rt.HashOf):
                    c = neq(hx.s, ra)
                    if c is not False and ((c is True and ctx.final()) or (c is not True and ctx.final(c))):
                        bad = "hash(X) is not the hash of the compact string"
                elif isinstance(ra, str):
                    if hx != hash(ra):
                        bad = "hash(X) is not the hash of the compact string"
                else:
                    bad = "hash(X) does not depend on the content"
        if bad:
            if not ctx.final():
                return
            m = ctx.model()
            res["violations"].append({"property": "C16", "what": f"{ka}/{kb} lens {la}/{lb}: {bad}", "mode": "violation",
                                      "call": {"steps": [["call", "spec.replay_preds.c16_compare", [ka, H.cp_enc(H.model_cps(m, a)), kb, H.cp_enc(H.model_cps(m, b))], {}]]},
                                      "pred": {"kind": "value_is_not", "value": {"cp": [111, 107]}}, "engine": H.outcome_of(out)})
        elif "w" not in holder and ctx.witness():
            holder["w"] = 1
            m = ctx.model()
            res["witnesses"].append({"property": "C16", "what": f"{ka}/{kb} lens {la}/{lb}", "mode": "witness", "engine": {"outcome": "return", "value": {"cp": [111, 107]}},
                                     "call": {"steps": [["call", "spec.replay_preds.c16_compare", [ka, H.cp_enc(H.model_cps(m, a)), kb, H.cp_enc(H.model_cps(m, b))], {}]]}})

    rt.explore(fn, on_path)


def reduce_roundtrip(obj):
    """what pickle does with protocol >= 2, on the engine's objects: reduce recursively, then reconstruct"""
    from sx.values import StrBase

    def dump(o):
        if isinstance(o, StrBase):
            rv = tuple(o.__reduce_ex__(4))
            f, args, state = (rv + (None, None))[:3]
            return ("obj", f, tuple(dump(a) if isinstance(a, StrBase) else a for a in args), dump(state))
        if isinstance(o, dict):
            return ("dict", [(k, dump(v)) for k, v in o.items()])
        return ("val", o)

    def load(d):
        if d[0] == "obj":
            _, f, args, state = d
            y = f(*[load(a) if isinstance(a, tuple) and a and a[0] in ("obj", "dict", "val") else a for a in args])
            st = load(state)
            if st:
                if hasattr(y, "__setstate__") and type(y).__setstate__ is not object.__dict__.get("__setstate__"):
                    y.__setstate__(st)
                else:
                    y.__dict__.update(st)
            return y
        if d[0] == "dict":
            return {k: load(v) for k, v in d[1]}
        return d[1]

    return load(dump(obj))


def run_b(clsname, L, cc, res):
    import copy

    holder = {}

    def fn():
        import schwifty
        from schwifty.bban import BBAN

        if cc is not None:
            cls_ = table.classes(cc)
            chars = [ord(cc[0]), ord(cc[1]), rt.digit_char("dd0"), rt.digit_char("dd1")] + bban_chars(cls_)
            if cc == "IT":
                for c in chars[4 + 11 :]:
                    ctx.add(c.guards[0])
            holder["chars"] = chars
            x = schwifty.IBAN(H.symstr(chars))
        else:
            chars = [rt.compact_char(f"w{i}") for i in range(L)]
            if clsname == "IBAN" and L >= 2:
                chars[:2] = [68, 69] if L % 2 else [90, 90]  # concrete prefix (known 'DE' / unknown 'ZZ'): no 126-way table fork
            holder["chars"] = chars
            s = H.symstr(chars)
            x = BBAN("DE", s) if clsname == "BBAN" else getattr(schwifty, clsname)(s, allow_invalid=True)
        attrs = ("country_code", "bank_code", "account_code") if clsname != "BIC" else ("country_code", "bank_code", "branch_code")

        def observe(o):
            d = {a: H_try(lambda a=a: getattr(o, a)) for a in attrs}
            if clsname == "IBAN":
                d["bban"] = H_try(lambda: o.bban)
                d["bban.cc"] = H_try(lambda: o.bban.country_code)
            return d

        copies = []
        for name, f in (("copy.copy", copy.copy), ("copy.deepcopy", copy.deepcopy), ("pickle round trip", reduce_roundtrip)):
            r = H_try(lambda f=f: f(x))
            copies.append((name, r, observe(r[1]) if r[0] == "ret" else None))
        return x, observe(x), copies

    def on_path(out):
        if out[0] == "exc":
            return
        chars = holder["chars"]
        x, ox, copies = out[1]
        res["obligations"] += 3
        bad = None

        def differs(u, v):
            if u[0] != v[0]:
                return True
            if u[0] == "exc":
                return type(u[1]) is not type(v[1])
            if isinstance(u[1], (str, rt.SymStr, rt.StrBase)) and isinstance(v[1], (str, rt.SymStr, rt.StrBase)):
                if type(u[1]) is not type(v[1]) and (isinstance(u[1], rt.StrBase) or isinstance(v[1], rt.StrBase)):
                    return True
                c = neq(u[1], v[1])
                return c is not False and ((c is True and ctx.final()) or (c is not True and ctx.final(c)))
            return u[1] != v[1]

        for name, r, oy in copies:
            if r[0] == "exc":
                bad = f"{name} raised {type(r[1]).__name__}"
                break
            y = r[1]
            if type(y) is not type(x):
                bad = f"{name} returned a {type(y).__name__}"
                break
            c = neq(y, x)
            if c is not False and ((c is True and ctx.final()) or (c is not True and ctx.final(c))):
                bad = f"{name} returned an unequal object"
                break
            for k in ox:
                if differs(ox[k], oy[k]):
                    bad = f"{name}: {k} of the copy differs"
                    break
            if bad:
                break
        if bad:
            if not ctx.final():
                return
            cps = H.model_cps(ctx.model(), chars)
            res["violations"].append({"property": "C16", "what": f"{clsname} {cc or 'len ' + str(L)}: {bad}", "mode": "violation",
                                      "call": {"steps": [["call", "spec.replay_preds.c16_copies", [clsname, H.cp_enc(cps), cc is not None], {}]]},
                                      "pred": {"kind": "value_is_not", "value": {"cp": [111, 107]}}, "engine": {"outcome": "return"}})
        elif "w" not in holder and ctx.witness():
            holder["w"] = 1
            cps = H.model_cps(ctx.model(), chars)
            res["witnesses"].append({"property": "C16", "what": f"{clsname} copies", "mode": "witness", "engine": {"outcome": "return", "value": {"cp": [111, 107]}},
                                     "call": {"steps": [["call", "spec.replay_preds.c16_copies", [clsname, H.cp_enc(cps), cc is not None], {}]]}})

    rt.explore(fn, on_path)


def run_b_list(L, res, same=False):
    """deep copy of a container holding several value objects (possibly with equal text but different class/country)"""
    import copy

    holder = {}

    def fn():
        import schwifty
        from schwifty.bban import BBAN

        a = [rt.compact_char(f"a{i}") for i in range(L)]
        b = a if same else [rt.compact_char(f"b{i}") for i in range(L)]
        holder.update(a=a, b=b)
        objs = [BBAN("DK", H.symstr(a) if a else ""), BBAN("FI", H.symstr(b) if b else ""), schwifty.BIC(H.symstr(b) if b else "", allow_invalid=True),
                schwifty.IBAN(H.symstr(a) if a else "", allow_invalid=True)]
        r = H_try(lambda: copy.deepcopy(objs))
        return objs, r

    def on_path(out):
        objs, r = out[1]
        res["obligations"] += 1
        bad = None
        if r[0] == "exc":
            bad = f"deepcopy of a list of objects raised {type(r[1]).__name__}"
        else:
            for x, y in zip(objs, r[1]):
                if type(x) is not type(y):
                    bad = f"copy of a {type(x).__name__} is a {type(y).__name__}"
                    break
                c = neq(x, y)
                if c is not False and ((c is True and ctx.final()) or (c is not True and ctx.final(c))):
                    bad = "copied element differs"
                    break
                if hasattr(x, "__dict__") and "country_code" in x.__dict__ and x.__dict__["country_code"] != y.__dict__.get("country_code"):
                    bad = f"country of the copied {type(x).__name__} changed from {x.__dict__['country_code']} to {y.__dict__.get('country_code')}"
                    break
        if bad:
            if not ctx.final():
                return
            m = ctx.model()
            res["violations"].append({"property": "C16", "what": f"deepcopy of [BBAN DK, BBAN FI, BIC, IBAN] (len {L}): {bad}", "mode": "violation",
                                      "call": {"steps": [["call", "spec.replay_preds.c16_list", [H.cp_enc(H.model_cps(m, holder["a"])), H.cp_enc(H.model_cps(m, holder["b"]))], {}]]},
                                      "pred": {"kind": "value_is_not", "value": {"cp": [111, 107]}}, "engine": {"outcome": "return"}})

    rt.explore(fn, on_path)
