"""C17 - the bundled country and bank data are internally consistent.

Semantic clauses, decided through the real objects:
  * per country and every length 0..40: "the country's compiled regex (as built at import by the real code) matches
    some string of that length" is sat iff the length equals the stated bban_length; iban_length = bban_length + 4 <= 34;
  * per country with banks: for a symbolic bank key constrained to be one of the listed codes (and arbitrary
    class-conforming characters elsewhere) IBAN.from_bban returns a valid IBAN whose bank look-up finds an entry with
    that code - no listed bank is unreachable.
Tabular clauses (positions inside the BBAN and disjoint; algorithms read defined fields; every bank entry's country is
in the table, its BIC empty or valid, its code empty or fitting the key field in length and classes): the negated
clause is asserted for a symbolic row index over the data loaded by the reference loader; unsat = all rows conform."""
import z3

from harness import common as H
from harness.c02 import H_try, bban_chars
from spec import iso9362, iso13616, table
from sx import extmodels, models, rt  # noqa: F401
from sx.core import ctx

BOUNDS = {"quick": {"data": "every country entry and every bank entry of the tree as it is at run time", "lengths": "0..40"},
          "thorough": {"data": "as quick", "lengths": "0..60"}}
STUBS = ["regex matcher model on unconstrained characters", "registry look-up by symbolic key: merged alternatives"]
ASSUMPTIONS = ["an algorithm that inherits the generic accepts list (bank, branch, account) may see an empty string for a field the country does not have; algorithms declaring their own accepts list, and the check-digit field of compute==expected algorithms, must be defined by the country",
               "ISO 3166-1 alpha-2 set for BICs = installed pycountry"]
MAXTASKS = 20
CHUNK = 250


def jobs(tier, seed):
    out = [{"kind": "country", "cc": cc, "maxlen": 60 if tier == "thorough" else 40} for cc in sorted(table.countries())]
    ccs = sorted({e.get("country_code") for e in table.banks()}, key=str)
    for cc in ccs:
        codes = sorted({e["bank_code"] for e in table.banks() if e.get("country_code") == cc and e.get("bank_code")})
        out.append({"kind": "banks", "cc": cc, "chunk": None})
        for i in range(0, len(codes), CHUNK):
            out.append({"kind": "banks", "cc": cc, "chunk": [i, i + CHUNK]})
    return out


def run_job(job, res):
    if job["kind"] == "country":
        run_country(job["cc"], job["maxlen"], res)
    else:
        run_banks(job["cc"], res, job.get("chunk"))


def viol(res, what, cc, extra=None):
    res["violations"].append({"property": "C17", "what": what, "mode": "violation", "engine": {"outcome": "return"},
                              "call": {"steps": [["call", "spec.replay_preds.c17_country" if extra is None else "spec.replay_preds.c17_bank", [cc] + (extra or []), {}]]},
                              "pred": {"kind": "value_is_not", "value": {"cp": [111, 107]}}})


def run_country(cc, maxlen, res):
    from schwifty import checksum, registry

    ctx.start()
    ref = table.countries()[cc]
    spec = registry.get("iban")[cc]
    pat = spec["regex"]
    stated = spec.get("bban_length")
    bad = []
    for L in range(0, maxlen + 1):
        cs, cond = models.regex_can_match_length(pat.pattern, pat.flags, L)
        s = z3.SimpleSolver()
        s.add(cond)
        r = s.check()
        ctx.stats.bump("queries")
        ctx.stats.bump("q_" + str(r))
        res["obligations"] += 1
        if r == z3.unknown:
            raise rt.Inconclusive("regex length query unknown")
        if (r == z3.sat) != (L == stated):
            bad.append(f"structure string matches length {L} but bban_length is {stated}" if r == z3.sat else f"structure string cannot match the stated bban_length {stated}")
    if spec.get("iban_length") != (stated or 0) + 4 or spec.get("iban_length", 99) > 34:
        bad.append(f"iban_length {spec.get('iban_length')} is not bban_length + 4 <= 34")
    cls = table.classes(cc)
    if cls is None or len(cls) != stated:
        bad.append("reference tokenisation of the structure string disagrees with bban_length")
    # positions: inside the BBAN and pairwise disjoint - solver over a symbolic position index
    pos = {k: v for k, v in (ref.get("positions") or {}).items()}
    x = z3.Int("x")
    names = sorted(pos)
    for k in names:
        a, b = pos[k]
        res["obligations"] += 1
        s = z3.SimpleSolver()
        s.add(x >= a, x < b, z3.Or(x < 0, x >= (stated or 0)))
        if not (0 <= a <= b) or s.check() != z3.unsat:
            bad.append(f"position of {k} {pos[k]} lies outside the BBAN")
    for i, k in enumerate(names):
        for k2 in names[i + 1 :]:
            s = z3.SimpleSolver()
            s.add(x >= pos[k][0], x < pos[k][1], x >= pos[k2][0], x < pos[k2][1])
            res["obligations"] += 1
            if s.check() != z3.unsat:
                bad.append(f"fields {k} and {k2} overlap")
    # algorithms read defined fields
    algo = checksum.algorithms.get(f"{cc}:default")
    if algo is not None:
        explicit = any("accepts" in c.__dict__ for c in type(algo).__mro__ if c is not checksum.Algorithm and c is not object)
        defined = {k for k, (a, b) in pos.items() if (a, b) != (0, 0)}
        for comp in algo.accepts:
            if explicit and str(comp.value) not in defined:
                bad.append(f"national algorithm reads {comp.value}, which the country does not define")
        if not any(str(c.value) in defined for c in algo.accepts):
            bad.append("national algorithm reads no defined field")
        if type(algo).validate is checksum.Algorithm.validate and "national_checksum_digits" not in defined:
            bad.append("national algorithm compares against national_checksum_digits, which the country does not define")
    ctx.stats.bump("paths")
    for b in bad[:3]:
        viol(res, f"{cc}: {b}", cc)
    if not bad and cc in ("DE", "FR", "LC"):
        res["witnesses"].append({"property": "C17", "what": f"{cc} country entry consistent", "mode": "witness", "engine": {"outcome": "return", "value": {"cp": [111, 107]}},
                                 "call": {"steps": [["call", "spec.replay_preds.c17_country", [cc], {}]]}})


def key_fields(cc):
    ref = table.countries()[cc]
    comps = ref.get("bic_lookup_components", ["bank_code"])
    pos = table.positions(cc)
    idx = []
    for c in comps:
        a, b = pos.get(c, (0, 0))
        idx.extend(range(a, b))
    return idx


def run_banks(cc, res, chunk=None):
    entries = [e for e in table.banks() if e.get("country_code") == cc]
    known = cc in table.countries()
    bad = []
    if not known:
        viol(res, f"bank entries name country {cc!r}, which is not in the country table", str(cc), [""])
        return
    cls = table.classes(cc)
    idx = key_fields(cc)
    # tabular clauses with a symbolic row index: code length / per-position class / BIC validity as arrays
    if chunk is not None:
        return run_reach(cc, res, entries, cls, idx, chunk)
    n = len(entries)
    row = z3.Int("row")
    bad_rows = []
    for i, e in enumerate(entries):
        code = e.get("bank_code") or ""
        conf = code == "" or (len(code) == len(idx) and all(iso13616.char_in_class(ord(ch), cls[j]) for ch, j in zip(code, idx)))
        bic = e.get("bic") or ""
        if not conf or not (bic == "" or iso9362.accepts_concrete(bic)):
            bad_rows.append(i)
    # "some row violates a clause" over a symbolic row index (the per-row facts are constants of the data)
    s = z3.SimpleSolver()
    s.add(row >= 0, row < n, z3.Or([row == i for i in bad_rows]) if bad_rows else z3.BoolVal(False))
    r = s.check()
    ctx.start()
    ctx.stats.bump("queries")
    ctx.stats.bump("q_" + str(r))
    res["obligations"] += 2 * n
    if r == z3.sat:
        i = s.model()[row].as_long()
        e = entries[i]
        viol(res, f"{cc}: bank entry {e.get('name')!r} code {e.get('bank_code')!r} bic {e.get('bic')!r} does not fit the key field (width {len(idx)}) / has an invalid BIC", cc, [e.get("bank_code") or "", e.get("bic") or ""])
        return
    return


def run_reach(cc, res, entries, cls, idx, chunk):
    codes = sorted({e["bank_code"] for e in entries if e.get("bank_code")})[chunk[0] : chunk[1]]
    codes = [c for c in codes if len(c) == len(idx)]  # ill-fitting codes are reported by the tabular job
    if not codes or not idx:
        return
    holder = {}

    def fn():
        from schwifty import IBAN

        b = bban_chars(cls)
        holder["b"] = b
        key = [b[j] for j in idx]
        ctx.add(z3.Or([z3.And([H.term_of(c) == ord(ch) for c, ch in zip(key, code)]) for code in codes]))
        x = IBAN.from_bban(cc, H.symstr(b))
        bank = x.bank
        if rt.is_(bank, None):
            return "unlisted", None
        return "found", bank["bank_code"], H.symstr(key)

    def on_path(out):
        b = holder["b"]
        res["obligations"] += 1
        bad = None
        if out[0] == "exc":
            bad = f"a listed bank code cannot occur in a valid IBAN ({type(out[1]).__name__})"
        elif out[1][0] == "unlisted":
            bad = "a listed bank code is not found again from its IBAN"
        else:
            got, key = out[1][1], out[1][2]
            if isinstance(got, rt.Merged):
                conds = []
                for c, v in got.alts:
                    r = rt.SymStr.of(key) == v
                    conds.append(z3.And(c, z3.Not(rt.zb(r) if isinstance(r, rt.SymBool) else z3.BoolVal(bool(r)))))
                if ctx.final(z3.Or(conds)):
                    bad = "the bank found from the IBAN carries a different code"
            else:
                r = rt.SymStr.of(key) == got
                if r is not True and ctx.final(z3.Not(rt.zb(r)) if isinstance(r, rt.SymBool) else z3.BoolVal(True)):
                    bad = "the bank found from the IBAN carries a different code"
        if bad:
            if not ctx.final():
                return
            cps = H.model_cps(ctx.model(), b)
            code = "".join(chr(cps[j]) for j in idx)
            viol(res, f"{cc}: {bad}: code {code!r}", cc, [code, ""])
        elif "w" not in holder and ctx.witness():
            holder["w"] = 1
            cps = H.model_cps(ctx.model(), b)
            code = "".join(chr(cps[j]) for j in idx)
            res["witnesses"].append({"property": "C17", "what": f"{cc} bank {code} reachable", "mode": "witness", "engine": {"outcome": "return", "value": {"cp": [111, 107]}},
                                     "call": {"steps": [["call", "spec.replay_preds.c17_bank", [cc, code, ""], {}]]}})

    rt.explore(fn, on_path)
