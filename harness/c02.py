"""C02 - IBAN check digits are computed correctly, uniquely and canonically.

Per country: b = symbolic BBAN conforming to the *reference* structure (digits / letters / alphanumerics per
position).  x = IBAN.from_bban(cc, b) must return on every path with check digits v in 02..98; for a second,
independent symbolic pair dd the validating constructor IBAN(cc + dd + b) accepts iff dd == v.  Hence exactly one
of the 100 pairs is accepted (the computed one) and the aliases 00, 01, 99 never are."""
import z3

from harness import common as H
from spec import table
from sx import rt
from sx.core import ctx
from sx.values import Dec

BOUNDS = {"quick": {"countries": "one per distinct table signature", "bbans": "all structure-conforming BBANs", "pairs": "all 100 (symbolic)"},
          "thorough": {"countries": "all", "bbans": "all structure-conforming BBANs", "pairs": "all 100 (symbolic)"}}
STUBS = ["re / str.upper / int / str / format models as in C01"]
ASSUMPTIONS = ["BBAN characters range over the reference classes n=[0-9], a=[A-Z], c=[0-9A-Z] (lower-case 'c' input is normalised first: C10)"]


def jobs(tier, seed):
    return [{"cc": cc} for cc in H.country_jobs(tier, seed)]


def bban_chars(cls, prefix="b"):
    out = []
    for i, k in enumerate(cls):
        if k == "n":
            out.append(rt.digit_char(f"{prefix}{i}"))
        elif k == "a":
            out.append(rt.upper_char(f"{prefix}{i}"))
        elif k == "c":
            out.append(rt.alnum_char(f"{prefix}{i}"))
        else:
            raise rt.Unmodelled(f"structure class {k!r}")
    return out


def run_job(job, res):
    cc = job["cc"]
    cls = table.classes(cc)
    if cls is None:
        raise rt.Unmodelled("variable-length structure token")
    holder, seen = {}, set()

    def fn():
        from schwifty import IBAN

        b = bban_chars(cls)
        d0, d1 = rt.digit_char("dd0"), rt.digit_char("dd1")
        holder.update(b=b, dd=(d0, d1))
        x = H_try(lambda: IBAN.from_bban(cc, H.symstr(b)))
        if x[0] == "exc":
            return x, None
        r = H_try(lambda: IBAN(H.symstr([ord(cc[0]), ord(cc[1]), d0, d1] + b)))
        return x, r

    def on_path(out):
        b, (d0, d1) = holder["b"], holder["dd"]
        res["obligations"] += 1
        x, r = out[1]
        ddv = H.spec_digit(d0) * 10 + H.spec_digit(d1)
        bad = None
        if x[0] == "exc":
            if ctx.final():
                bad = ("from_bban", f"from_bban raised {type(x[1]).__name__} on a structure-conforming BBAN")
        else:
            p = rt.SymStr.of(x[1]._s).p
            v = None
            if len(p) >= 3 and isinstance(p[2], Dec) and p[2].wlo == 2 and p[2].whi == 2 and len(p) == 3 + len(cls):
                v = p[2].v
            elif len(rt.SymStr.of(x[1]._s)) == 4 + len(cls):
                dd_chars = rt.SymStr.of(x[1]._s)._dense().p[2:4]
                v = (rt.zc(dd_chars[0]) - 48) * 10 + (rt.zc(dd_chars[1]) - 48)
            if v is None:
                if ctx.final():
                    bad = ("from_bban", "assembled IBAN has not the length of cc + two check digits + bban")
            else:
                if ctx.final(z3.Not(z3.And(v >= 2, v <= 98))):
                    bad = ("from_bban", "computed check digits outside 02..98")
                elif r[0] == "ret":
                    if ctx.final(ddv != v):
                        bad = ("pair", "a check-digit pair different from the computed one is accepted")
                elif ctx.final(ddv == v):
                    bad = ("pair", f"the computed check-digit pair is rejected ({type(r[1]).__name__})")
        if bad:
            m = ctx.model()
            bc = H.model_cps(m, b)
            if bad[0] == "from_bban":
                call = {"steps": [["call", "schwifty.IBAN.from_bban", [cc, H.cp_enc(bc)], {}], ["apply", "builtins.str"]]}
            else:
                call = H.iban_call([ord(cc[0]), ord(cc[1])] + H.model_cps(m, [d0, d1]) + bc)
            res["violations"].append({"property": "C02", "what": f"{cc}: {bad[1]}", "call": call, "mode": "violation", "kindv": bad[0], "cc": cc,
                                      "pred": {"kind": "custom", "module": "spec.replay_preds", "func": "c02_check"}, "engine": H.outcome_of(r if bad[0] == "pair" else x)})
            return
        kind = "accept" if r[0] == "ret" else type(r[1]).__name__
        if kind not in seen and ctx.witness():
            seen.add(kind)
            m = ctx.model()
            cps = [ord(cc[0]), ord(cc[1])] + H.model_cps(m, [d0, d1]) + H.model_cps(m, b)
            res["witnesses"].append({"property": "C02", "what": f"{cc} pair {kind}", "call": H.iban_call(cps), "mode": "witness", "engine": H.outcome_of(r)})

    rt.explore(fn, on_path)


def H_try(thunk):
    try:
        return ("ret", thunk())
    except Exception as e:  # noqa: BLE001
        return ("exc", e)
