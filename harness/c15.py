"""C15 - results depend only on arguments and bundled data, never on call history.

Inductive argument plus bounded histories:
 (frame)  every API call below runs under the write monitor: no write may hit an object reachable from the loaded
          registries, nor an IBAN/BIC/BBAN object that existed before the call - so calls preserve the registries.
 (havoc)  for every German method object the scratch attributes it writes are set to fresh symbolic integers before the
          call; the same symbolic account is validated under two independent havocs: the outcomes must be equal, i.e.
          whatever an earlier call left behind is irrelevant.
 (pairs)  histories of length two with symbolic inputs: g(y) evaluated on pristine state (its own writes are undone
          afterwards through the engine's undo log), then f(x), then g(y) again; both evaluations of g(y) must agree
          (catches caches keyed on too little, memo tables, leaked scratch state).  f and g are parse-and-observe calls
          (constructor outcome plus component accessors) for pairs of countries, BIC parsing, and generate()."""
import random

import z3

from harness import common as H
from harness.c02 import H_try, bban_chars
from harness.c07 import digits10, registered
from harness.c14 import outcome_neq, shared_locations
from spec import table
from sx import extmodels, rt  # noqa: F401
from sx.core import ctx

BOUNDS = {"quick": {"havoc": "all registered German methods x all accounts x all scratch values", "pairs": "same-country pairs for 6 seeded countries, 10 seeded cross-country pairs with equal BBAN length, BIC/BIC, IBAN/BIC; all structure-conforming texts (second text may or may not share characters with the first)"},
          "thorough": {"havoc": "as quick", "pairs": "30 same-country and 60 cross-country pairs"}}
STUBS = ["functools.lru_cache emulated per path as an association list compared with ==", "undo log over instrumented stores and mutating container methods"]
ASSUMPTIONS = ["lazy one-time initialisation inside re / pycountry is environment", "histories longer than two calls are covered by the frame + havoc induction, not enumerated"]
MAXTASKS = 20


def jobs(tier, seed):
    rnd = random.Random(seed)
    out = [{"kind": "havoc", "m": m} for m in registered()]
    ccs = [c for c in sorted(table.countries()) if table.positions(c)]
    same = rnd.sample(ccs, 30 if tier == "thorough" else 6)
    for cc in sorted(set(same) | {"DE", "ES"}):
        out.append({"kind": "pair", "a": cc, "b": cc})
    by_len = {}
    for cc in ccs:
        by_len.setdefault(len(table.classes(cc)), []).append(cc)
    cross = []
    for L, group in sorted(by_len.items()):
        for i, a in enumerate(group):
            for b in group[i + 1 :]:
                if table.classes(a) != table.classes(b) or table.positions(a) != table.positions(b):
                    cross.append((a, b))
    for a, b in rnd.sample(cross, min(len(cross), 60 if tier == "thorough" else 10)) + [("DE", "GB"), ("CF", "KM")]:
        out.append({"kind": "pair", "a": a, "b": b})
        out.append({"kind": "pair", "a": b, "a2": 1, "b": a})
    out.append({"kind": "bic"})
    return out


_REG = {}


def prepare(tier, seed):
    registry_ids()  # computed once in the parent, before any path runs (ids of live registry objects are stable)
    return {"coverage": {"registry_objects_watched": len(_REG)}}


def registry_ids():
    if not _REG:
        from schwifty import registry

        stack = list(registry._registry.values())
        seen = _REG
        while stack:
            o = stack.pop()
            if id(o) in seen:
                continue
            if isinstance(o, dict):
                seen[id(o)] = o
                stack.extend(o.values())
            elif isinstance(o, list):
                seen[id(o)] = o
                stack.extend(o)
    return _REG


def run_job(job, res):
    if job["kind"] == "havoc":
        run_havoc(job["m"], res)
    elif job["kind"] == "pair":
        run_pair(job["a"], job["b"], res)
    else:
        run_bic(res)


def run_havoc(m, res):
    from schwifty.checksum import algorithms

    algo = algorithms[f"DE:{m}"]
    shared = shared_locations(lambda: algo.validate([H.symstr(digits10("p"))], ""))
    names = sorted(n for _, n in shared)
    res["obligations"] += 1
    if not names:
        return
    holder = {}

    def fn():
        a = digits10()
        holder["a"] = a
        outs = []
        for r in range(2):
            for n in names:
                setattr(algo, n, rt.SymInt(rt.fresh_int(f"h{r}_{n}", -50, 50)))
            outs.append(H_try(lambda: algo.validate([H.symstr(a)], "")))
        return outs

    def on_path(out):
        r1, r2 = out[1]
        res["obligations"] += 1
        d = outcome_neq(r1, r2)
        same = d is False or (not isinstance(d, bool) and z3.is_false(d))
        if not same and ((d is True and ctx.final()) or (d is not True and ctx.final(d))):
            mdl = ctx.model()
            acct = "".join(map(chr, H.model_cps(mdl, holder["a"])))
            vals = {f"h{r}_{n}": mdl.eval(z3.Int(f"h{r}_{n}"), model_completion=True).as_long() for r in range(2) for n in names}
            res["violations"].append({"property": "C15", "what": f"method {m}: verdict for {acct} depends on scratch state left by earlier calls {vals}", "mode": "violation",
                                      "call": {"steps": [["call", "spec.replay_preds.c15_havoc", [m, acct, names, [vals[f"h0_{n}"] for n in names], [vals[f"h1_{n}"] for n in names]], {}]]},
                                      "pred": {"kind": "value_is_not", "value": {"cp": [111, 107]}}, "engine": {"outcome": "return"}})
        elif "w" not in holder and ctx.witness():
            holder["w"] = 1
            mdl = ctx.model()
            acct = "".join(map(chr, H.model_cps(mdl, holder["a"])))
            res["witnesses"].append({"property": "C15", "what": f"method {m} havoc", "mode": "witness", "engine": {"outcome": "return", "value": {"cp": [111, 107]}},
                                     "call": {"steps": [["call", "spec.replay_preds.c15_havoc", [m, acct, names, [3] * len(names), [-7] * len(names)], {}]]}})

    rt.explore(fn, on_path)


ATTRS = ("bank_code", "branch_code", "account_code", "national_checksum_digits")


def observe(text, kw=None):
    """parse-and-observe: constructor outcome and, on success, the component accessors"""
    from schwifty import IBAN

    r = H_try(lambda: IBAN(text, **(kw or {})))
    if r[0] != "ret":
        return [r]
    return [r] + [H_try(lambda a=a: getattr(r[1], a)) for a in ATTRS]


def frame_violation(pre_objs):
    """a write of the current path that hits registry data or a pre-existing value object"""
    reg = registry_ids()
    for kind, oid, tname, key in ctx.writes:
        if oid in reg:
            return f"{kind} on a registry {tname} (key {key!r})"
        if oid in pre_objs:
            return f"{kind} on a previously created {tname} object (attribute {key!r})"
    return None


def run_pair(cca, ccb, res):
    holder = {}
    clsa, clsb = table.classes(cca), table.classes(ccb)

    def fn():
        xa = [ord(cca[0]), ord(cca[1]), rt.digit_char("xa0"), rt.digit_char("xa1")] + bban_chars(clsa, "xa")
        xb = [ord(ccb[0]), ord(ccb[1]), rt.digit_char("xb0"), rt.digit_char("xb1")] + bban_chars(clsb, "xb")
        for c in xa[4:] + xb[4:]:
            if len(c.classes) > 1 and (cca in ("IT", "SM") or ccb in ("IT", "SM")):
                ctx.add(c.guards[0])
        holder.update(xa=xa, xb=xb)
        ta, tb = H.symstr(xa), H.symstr(xb)
        rt.MONITOR["on"] = True
        ctx.writes = []
        ctx.undo = rt.UndoLog()
        lru = {k: list(v) for k, v in ctx.path_cache.items() if k[0] == "lru"}
        try:
            r1 = observe(tb)
        finally:
            ctx.undo.restore()
            ctx.undo = None
            for k in [k for k in ctx.path_cache if k[0] == "lru"]:
                ctx.path_cache[k] = lru.get(k, [])
        pre = {id(o[1]) for o in r1 if o[0] == "ret" and isinstance(o[1], rt.StrBase)}
        fo = observe(ta)
        pre |= {id(o[1]) for o in fo if o[0] == "ret" and isinstance(o[1], rt.StrBase)}
        bad_frame = frame_violation(set())
        ctx.writes = []
        r2 = observe(tb)
        bad_frame = bad_frame or frame_violation(pre)
        rt.MONITOR["on"] = False
        return r1, r2, bad_frame

    def on_path(out):
        if out[0] == "exc":
            raise rt.Unmodelled(f"pair harness raised {type(out[1]).__name__}")
        r1, r2, bad_frame = out[1]
        res["obligations"] += 2
        bad = bad_frame
        if bad is None:
            if len(r1) != len(r2):
                bad = f"second evaluation {'succeeds' if len(r2) > 1 else 'fails'} while the fresh one {'succeeds' if len(r1) > 1 else 'fails'}" if ctx.final() else None
            else:
                for i, (u, v) in enumerate(zip(r1, r2)):
                    d = outcome_neq(u, v)
                    if d is False or (not isinstance(d, bool) and z3.is_false(d)):
                        continue
                    if (d is True and ctx.final()) or (d is not True and ctx.final(d)):
                        bad = ("constructor outcome" if i == 0 else ATTRS[i - 1]) + " differs from the evaluation on fresh state"
                        break
        elif not ctx.final():
            bad = None
        if bad:
            mdl = ctx.model()
            a, b = H.model_cps(mdl, holder["xa"]), H.model_cps(mdl, holder["xb"])
            res["violations"].append({"property": "C15", "what": f"after parsing a {cca} IBAN, parsing a {ccb} IBAN: {bad}", "mode": "violation",
                                      "call": {"steps": [["call", "spec.replay_preds.c15_pair", [H.cp_enc(a), H.cp_enc(b)], {}]]},
                                      "pred": {"kind": "value_is_not", "value": {"cp": [111, 107]}}, "engine": {"outcome": "return"}})
        elif holder.get("w", 0) < 2 and len(r2) > 1 and ctx.witness():
            holder["w"] = holder.get("w", 0) + 1
            mdl = ctx.model()
            a, b = H.model_cps(mdl, holder["xa"]), H.model_cps(mdl, holder["xb"])
            res["witnesses"].append({"property": "C15", "what": f"{cca} then {ccb}", "mode": "witness", "engine": {"outcome": "return", "value": {"cp": [111, 107]}},
                                     "call": {"steps": [["call", "spec.replay_preds.c15_pair", [H.cp_enc(a), H.cp_enc(b)], {}]]}})

    try:
        rt.explore(fn, on_path)
    finally:
        rt.MONITOR["on"] = False
        ctx.undo = None


def run_bic(res):
    holder = {}

    def fn():
        from schwifty import BIC

        a = [rt.alnum_char(f"a{i}") for i in range(8)]
        b = [rt.alnum_char(f"b{i}") for i in range(11)]
        holder.update(a=a, b=b)

        def obs(t):
            r = H_try(lambda: BIC(t))
            return [r] + ([H_try(lambda: r[1].branch_code), H_try(lambda: r[1].country_code)] if r[0] == "ret" else [])

        rt.MONITOR["on"] = True
        ctx.writes = []
        ctx.undo = rt.UndoLog()
        try:
            r1 = obs(H.symstr(b))
        finally:
            ctx.undo.restore()
            ctx.undo = None
        obs(H.symstr(a))
        r2 = obs(H.symstr(b))
        bad = frame_violation(set())
        rt.MONITOR["on"] = False
        return r1, r2, bad

    def on_path(out):
        r1, r2, bad = out[1]
        res["obligations"] += 1
        if bad is None and len(r1) != len(r2):
            bad = "outcome differs from the evaluation on fresh state"
        if bad is None:
            for u, v in zip(r1, r2):
                d = outcome_neq(u, v)
                if not (d is False or (not isinstance(d, bool) and z3.is_false(d))) and ((d is True and ctx.final()) or (d is not True and ctx.final(d))):
                    bad = "outcome differs from the evaluation on fresh state"
                    break
        if bad and ctx.final():
            mdl = ctx.model()
            res["violations"].append({"property": "C15", "what": f"BIC after BIC: {bad}", "mode": "violation",
                                      "call": {"steps": [["call", "spec.replay_preds.c15_bic", [H.cp_enc(H.model_cps(mdl, holder["a"])), H.cp_enc(H.model_cps(mdl, holder["b"]))], {}]]},
                                      "pred": {"kind": "value_is_not", "value": {"cp": [111, 107]}}, "engine": {"outcome": "return"}})

    try:
        rt.explore(fn, on_path)
    finally:
        rt.MONITOR["on"] = False
        ctx.undo = None
