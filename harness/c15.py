"""C15 - results depend only on arguments and bundled data, never on call history.

Inductive argument plus bounded histories:
 (frame)  every API call below runs under the write monitor: no write may hit an object reachable from the loaded
          registries, nor an IBAN/BIC/BBAN object that existed before the call - so calls preserve the registries.
 (havoc)  for every German method object the scratch attributes it writes are set to fresh symbolic integers before the
          call; the same symbolic account is validated under two independent havocs: the outcomes must be equal, i.e.
          whatever an earlier call left behind is irrelevant.
 (pairs)  histories of length two with symbolic inputs: g(y) evaluated on pristine state (its own writes are undone
          afterwards through the engine's undo log), then f(x), then g(y) again; both evaluations of g(y) must agree
          (catches caches keyed on too little, memo tables, leaked scratch state).  f and g are parse-and-observe calls
          (constructor outcome plus component accessors) for pairs of countries, BIC parsing, and generate()."""
import random

import z3

from harness import common as H
from harness.c02 import H_try, bban_chars
from harness.c07 import digits10, registered
from harness.c14 import outcome_neq, shared_locations
from spec import table
from sx import extmodels, rt  # noqa: F401
from sx.core import ctx

BOUNDS = {"quick": {"havoc": "all registered German methods x all accounts x all scratch values", "pairs": "same-country pairs for 6 seeded countries, 10 seeded cross-country pairs with equal BBAN length, BIC/BIC, IBAN/BIC; all structure-conforming texts (second text may or may not share characters with the first)"},
          "thorough": {"havoc": "as quick", "pairs": "30 same-country and 60 cross-country pairs"}}
STUBS = ["functools.lru_cache emulated per path as an association list compared with ==", "undo log over instrumented stores and mutating container methods"]
ASSUMPTIONS = ["lazy one-time initialisation inside re / pycountry is environment", "histories longer than two calls are covered by the frame + havoc induction, not enumerated"]
MAXTASKS = 20


def jobs(tier, seed):
    rnd = random.Random(seed)
    out = [{"kind": "havoc", "m": m} for m in registered()]
    ccs = [c for c in sorted(table.countries()) if table.positions(c)]
    same = rnd.sample(ccs, 30 if tier == "thorough" else 6)
    for cc in sorted(set(same) | {"DE", "ES"}):
        out.append({"kind": "pair", "a": cc, "b": cc})
    by_len = {}
    for cc in ccs:
        by_len.setdefault(len(table.classes(cc)), []).append(cc)
    cross = []
    for L, group in sorted(by_len.items()):
        for i, a in enumerate(group):
            for b in group[i + 1 :]:
                if table.classes(a) != table.classes(b) or table.positions(a) != table.positions(b):
                    cross.append((a, b))
    for a, b in rnd.sample(cross, min(len(cross), 60 if tier == "thorough" else 10)) + [("DE", "GB"), ("CF", "KM"), ("FR", "MC")]:
        out.append({"kind": "pair", "a": a, "b": b})
        out.append({"kind": "pair", "a": b, "a2": 1, "b": a})
        out.append({"kind": "pair", "a": a, "b": b, "share": True})  # both texts carry the very same BBAN (a's structure)
    out.append({"kind": "bic"})
    # generate() histories: countries sharing a structure string but publishing different positions, plus same-country
    by_spec = {}
    for cc in ccs:
        by_spec.setdefault(table.countries()[cc]["bban_spec"], []).append(cc)
    gp = [(a, b) for g in by_spec.values() for a in g for b in g if a != b and table.positions(a) != table.positions(b)]
    for a, b in (gp if tier == "thorough" else rnd.sample(gp, min(len(gp), 8))) + [("DE", "DE"), ("PT", "ST"), ("ST", "PT"), ("FR", "YT")]:
        out.append({"kind": "genpair", "a": a, "b": b})
    # registry look-ups must leave the registry as it was
    from spec import registry_ref as R

    idx = R.by_code(table.banks(), True)
    multi = sorted(k for k, v in idx.items() if len(v) > 1 and k[0] in table.countries())
    single = sorted(k for k, v in idx.items() if len(v) == 1 and k[0] in table.countries())
    keys = rnd.sample(multi, min(len(multi), 200 if tier == "thorough" else 40)) + rnd.sample(single, 20)
    for i in range(0, len(keys), 10):
        out.append({"kind": "lookups", "keys": [list(k) for k in keys[i : i + 10]]})
    return out


_REG = {}


def prepare(tier, seed):
    registry_ids()  # computed once in the parent, before any path runs (ids of live registry objects are stable)
    return {"coverage": {"registry_objects_watched": len(_REG)}}


def registry_ids():
    if not _REG:
        from schwifty import registry

        stack = list(registry._registry.values())
        seen = _REG
        while stack:
            o = stack.pop()
            if id(o) in seen:
                continue
            if isinstance(o, dict):
                seen[id(o)] = o
                stack.extend(o.values())
            elif isinstance(o, list):
                seen[id(o)] = o
                stack.extend(o)
    return _REG


def run_job(job, res):
    if job["kind"] == "havoc":
        run_havoc(job["m"], res)
    elif job["kind"] == "pair":
        run_pair(job["a"], job["b"], res, job.get("share", False))
    elif job["kind"] == "genpair":
        run_genpair(job["a"], job["b"], res)
    elif job["kind"] == "lookups":
        for cc, code in job["keys"]:
            run_lookup(cc, code, res)
    else:
        run_bic(res)


def run_havoc(m, res):
    from schwifty.checksum import algorithms

    algo = algorithms[f"DE:{m}"]
    shared = shared_locations(lambda: algo.validate([H.symstr(digits10("p"))], ""))
    names = sorted(n for _, n in shared)
    res["obligations"] += 1
    if not names:
        return
    holder = {}

    def fn():
        a = digits10()
        holder["a"] = a
        outs = []
        for r in range(2):
            for n in names:
                setattr(algo, n, rt.SymInt(rt.fresh_int(f"h{r}_{n}", -50, 50)))
            outs.append(H_try(lambda: algo.validate([H.symstr(a)], "")))
        return outs

    def on_path(out):
        r1, r2 = out[1]
        res["obligations"] += 1
        d = outcome_neq(r1, r2)
        same = d is False or (not isinstance(d, bool) and z3.is_false(d))
        if not same and ((d is True and ctx.final()) or (d is not True and ctx.final(d))):
            mdl = ctx.model()
            acct = "".join(map(chr, H.model_cps(mdl, holder["a"])))
            vals = {f"h{r}_{n}": mdl.eval(z3.Int(f"h{r}_{n}"), model_completion=True).as_long() for r in range(2) for n in names}
            res["violations"].append({"property": "C15", "what": f"method {m}: verdict for {acct} depends on scratch state left by earlier calls {vals}", "mode": "violation",
                                      "call": {"steps": [["call", "spec.replay_preds.c15_havoc", [m, acct, names, [vals[f"h0_{n}"] for n in names], [vals[f"h1_{n}"] for n in names]], {}]]},
                                      "pred": {"kind": "value_is_not", "value": {"cp": [111, 107]}}, "engine": {"outcome": "return"}})
        elif "w" not in holder and ctx.witness():
            holder["w"] = 1
            mdl = ctx.model()
            acct = "".join(map(chr, H.model_cps(mdl, holder["a"])))
            res["witnesses"].append({"property": "C15", "what": f"method {m} havoc", "mode": "witness", "engine": {"outcome": "return", "value": {"cp": [111, 107]}},
                                     "call": {"steps": [["call", "spec.replay_preds.c15_havoc", [m, acct, names, [3] * len(names), [-7] * len(names)], {}]]}})

    rt.explore(fn, on_path)


ATTRS = ("bank_code", "branch_code", "account_code", "national_checksum_digits")


_NBANKS = {}


def small_registry(cc):
    if not _NBANKS:
        for e in table.banks():
            _NBANKS[e.get("country_code")] = _NBANKS.get(e.get("country_code"), 0) + 1
    return _NBANKS.get(cc, 0) <= 400


def observe(text, kw=None, with_bank=False):
    """parse-and-observe: constructor outcome and, on success, the component accessors"""
    from schwifty import IBAN

    r = H_try(lambda: IBAN(text, **(kw or {})))
    if r[0] != "ret":
        return [r]
    out = [r] + [H_try(lambda a=a: getattr(r[1], a)) for a in ATTRS]
    if with_bank:
        out.append(H_try(lambda: r[1].bank_name))  # possibly a merged look-up result (compared without forking)
    return out


def merged_neq(u, v):
    """z3 condition: two (possibly merged) look-up results differ"""
    def alts(x):
        return x.alts if isinstance(x, rt.Merged) else [(z3.BoolVal(True), x)]

    a2 = {}
    for d, val in alts(v):
        a2.setdefault(rt.Merged._gkey(val), []).append(d)
    terms = []
    for c, val in alts(u):
        same = a2.get(rt.Merged._gkey(val), [])
        terms.append(z3.And(c, z3.Not(z3.Or(same))) if same else c)
    return z3.simplify(z3.Or(terms)) if terms else False


def frame_violation(pre_objs, undo=None):
    """a write of the current path that changed registry data or a pre-existing value object"""
    reg = registry_ids()
    for kind, oid, tname, key in ctx.writes:
        if oid in reg:
            snap = undo.containers.get(oid) if undo is not None else None
            if snap is not None and _same_content(snap[0], snap[1]):
                continue  # e.g. an in-place operation that left the content as it was
            return f"{kind} changed a registry {tname}"
        if oid in pre_objs:
            return f"{kind} on a previously created {tname} object (attribute {key!r})"
    return None


def _same_content(obj, snap):
    if isinstance(obj, list):
        return len(obj) == len(snap) and all(a is b for a, b in zip(obj, snap))
    if isinstance(obj, dict):
        return list(obj.keys()) == list(snap.keys()) and all(obj[k] is snap[k] for k in obj)
    return obj == snap


def run_pair(cca, ccb, res, share=False):
    holder = {}
    clsa, clsb = table.classes(cca), table.classes(ccb)

    def fn():
        xa = [ord(cca[0]), ord(cca[1]), rt.digit_char("xa0"), rt.digit_char("xa1")] + bban_chars(clsa, "xa")
        xb = [ord(ccb[0]), ord(ccb[1]), rt.digit_char("xb0"), rt.digit_char("xb1")] + (xa[4:] if share else bban_chars(clsb, "xb"))
        for c in xa[4:] + xb[4:]:
            if len(c.classes) > 1 and (cca in ("IT", "SM") or ccb in ("IT", "SM")):
                ctx.add(c.guards[0])
        holder.update(xa=xa, xb=xb)
        ta, tb = H.symstr(xa), H.symstr(xb)
        wb = small_registry(cca) and small_registry(ccb)
        rt.MONITOR["on"] = True
        ctx.writes = []
        ctx.undo = rt.UndoLog()
        lru = {k: list(v) for k, v in ctx.path_cache.items() if k[0] == "lru"}
        try:
            r1 = observe(tb, with_bank=wb)
        finally:
            ctx.undo.restore()
            ctx.undo = None
            for k in [k for k in ctx.path_cache if k[0] == "lru"]:
                ctx.path_cache[k] = lru.get(k, [])
        pre = {id(o[1]) for o in r1 if o[0] == "ret" and isinstance(o[1], rt.StrBase)}
        fo = observe(ta, with_bank=wb)
        pre |= {id(o[1]) for o in fo if o[0] == "ret" and isinstance(o[1], rt.StrBase)}
        bad_frame = frame_violation(set())
        ctx.writes = []
        r2 = observe(tb, with_bank=wb)
        bad_frame = bad_frame or frame_violation(pre)
        rt.MONITOR["on"] = False
        return r1, r2, bad_frame

    def on_path(out):
        if out[0] == "exc":
            raise rt.Unmodelled(f"pair harness raised {type(out[1]).__name__}")
        r1, r2, bad_frame = out[1]
        res["obligations"] += 2
        bad = bad_frame
        if bad is None:
            if len(r1) != len(r2):
                bad = f"second evaluation {'succeeds' if len(r2) > 1 else 'fails'} while the fresh one {'succeeds' if len(r1) > 1 else 'fails'}" if ctx.final() else None
            else:
                for i, (u, v) in enumerate(zip(r1, r2)):
                    if u[0] == v[0] == "ret" and (isinstance(u[1], rt.Merged) or isinstance(v[1], rt.Merged)):
                        d = merged_neq(u[1], v[1])
                    else:
                        d = outcome_neq(u, v)
                    if d is False or (not isinstance(d, bool) and z3.is_false(d)):
                        continue
                    if (d is True and ctx.final()) or (d is not True and ctx.final(d)):
                        bad = ("constructor outcome" if i == 0 else (ATTRS + ("bank_name",))[i - 1]) + " differs from the evaluation on fresh state"
                        break
        elif not ctx.final():
            bad = None
        if bad:
            mdl = ctx.model()
            a, b = H.model_cps(mdl, holder["xa"]), H.model_cps(mdl, holder["xb"])
            res["violations"].append({"property": "C15", "what": f"after parsing a {cca} IBAN, parsing a {ccb} IBAN: {bad}", "mode": "violation",
                                      "call": {"steps": [["call", "spec.replay_preds.c15_pair", [H.cp_enc(a), H.cp_enc(b)], {}]]},
                                      "pred": {"kind": "value_is_not", "value": {"cp": [111, 107]}}, "engine": {"outcome": "return"}})
        elif holder.get("w", 0) < 2 and len(r2) > 1 and ctx.witness():
            holder["w"] = holder.get("w", 0) + 1
            mdl = ctx.model()
            a, b = H.model_cps(mdl, holder["xa"]), H.model_cps(mdl, holder["xb"])
            res["witnesses"].append({"property": "C15", "what": f"{cca} then {ccb}", "mode": "witness", "engine": {"outcome": "return", "value": {"cp": [111, 107]}},
                                     "call": {"steps": [["call", "spec.replay_preds.c15_pair", [H.cp_enc(a), H.cp_enc(b)], {}]]}})

    try:
        rt.explore(fn, on_path)
    finally:
        rt.MONITOR["on"] = False
        ctx.undo = None


def run_bic(res):
    holder = {}

    def fn():
        from schwifty import BIC

        a = [rt.alnum_char(f"a{i}") for i in range(8)]
        b = [rt.alnum_char(f"b{i}") for i in range(11)]
        holder.update(a=a, b=b)

        def obs(t):
            r = H_try(lambda: BIC(t))
            return [r] + ([H_try(lambda: r[1].branch_code), H_try(lambda: r[1].country_code)] if r[0] == "ret" else [])

        rt.MONITOR["on"] = True
        ctx.writes = []
        ctx.undo = rt.UndoLog()
        try:
            r1 = obs(H.symstr(b))
        finally:
            ctx.undo.restore()
            ctx.undo = None
        obs(H.symstr(a))
        r2 = obs(H.symstr(b))
        bad = frame_violation(set())
        rt.MONITOR["on"] = False
        return r1, r2, bad

    def on_path(out):
        r1, r2, bad = out[1]
        res["obligations"] += 1
        if bad is None and len(r1) != len(r2):
            bad = "outcome differs from the evaluation on fresh state"
        if bad is None:
            for u, v in zip(r1, r2):
                d = outcome_neq(u, v)
                if not (d is False or (not isinstance(d, bool) and z3.is_false(d))) and ((d is True and ctx.final()) or (d is not True and ctx.final(d))):
                    bad = "outcome differs from the evaluation on fresh state"
                    break
        if bad and ctx.final():
            mdl = ctx.model()
            res["violations"].append({"property": "C15", "what": f"BIC after BIC: {bad}", "mode": "violation",
                                      "call": {"steps": [["call", "spec.replay_preds.c15_bic", [H.cp_enc(H.model_cps(mdl, holder["a"])), H.cp_enc(H.model_cps(mdl, holder["b"]))], {}]]},
                                      "pred": {"kind": "value_is_not", "value": {"cp": [111, 107]}}, "engine": {"outcome": "return"}})

    try:
        rt.explore(fn, on_path)
    finally:
        rt.MONITOR["on"] = False
        ctx.undo = None


def run_genpair(cca, ccb, res):
    """IBAN.generate for country a, then for country b, versus generate for b on pristine state"""
    from harness.c08 import widths

    holder = {}

    def comps(cc, tag):
        cls = table.classes(cc)
        pos = table.positions(cc)
        out = {}
        for k in ("bank_code", "branch_code", "account_code"):
            a, b = pos.get(k, (0, 0))
            chars = []
            for i in range(a, b):
                kind = cls[i]
                chars.append(rt.digit_char(f"{tag}{k[:2]}{i}") if kind == "n" else rt.upper_char(f"{tag}{k[:2]}{i}") if kind == "a" else rt.digit_char(f"{tag}{k[:2]}{i}"))
            out[k] = chars
        return out

    def gen(cc, c):
        from schwifty import IBAN

        r = H_try(lambda: IBAN.generate(cc, H.symstr(c["bank_code"]) if c["bank_code"] else "", H.symstr(c["account_code"]) if c["account_code"] else "", H.symstr(c["branch_code"]) if c["branch_code"] else ""))
        if r[0] != "ret":
            return [r]
        return [r] + [H_try(lambda a=a: getattr(r[1], a)) for a in ATTRS]

    def fn():
        ca, cb = comps(cca, "p"), comps(ccb, "q")
        holder.update(ca=ca, cb=cb)
        ctx.undo = rt.UndoLog()
        lru = {k: list(v) for k, v in ctx.path_cache.items() if k[0] == "lru"}
        try:
            r1 = gen(ccb, cb)
        finally:
            ctx.undo.restore()
            ctx.undo = None
            for k in [k for k in ctx.path_cache if k[0] == "lru"]:
                ctx.path_cache[k] = lru.get(k, [])
        gen(cca, ca)
        return r1, gen(ccb, cb)

    def on_path(out):
        if out[0] == "exc":
            raise rt.Unmodelled(f"genpair harness raised {type(out[1]).__name__}")
        r1, r2 = out[1]
        res["obligations"] += 1
        bad = None
        if len(r1) != len(r2):
            bad = "second generate() differs in outcome from generate() on fresh state" if ctx.final() else None
        else:
            for i, (u, v) in enumerate(zip(r1, r2)):
                d = outcome_neq(u, v)
                if d is False or (not isinstance(d, bool) and z3.is_false(d)):
                    continue
                if (d is True and ctx.final()) or (d is not True and ctx.final(d)):
                    bad = ("generated IBAN" if i == 0 else ATTRS[i - 1]) + " differs from generate() on fresh state"
                    break
        if bad:
            mdl = ctx.model()
            enc = lambda c: {k: "".join(map(chr, H.model_cps(mdl, v))) for k, v in c.items()}  # noqa: E731
            res["violations"].append({"property": "C15", "what": f"after IBAN.generate for {cca}, IBAN.generate for {ccb}: {bad}", "mode": "violation",
                                      "call": {"steps": [["call", "spec.replay_preds.c15_genpair", [cca, enc(holder["ca"]), ccb, enc(holder["cb"])], {}]]},
                                      "pred": {"kind": "value_is_not", "value": {"cp": [111, 107]}}, "engine": {"outcome": "return"}})

    try:
        rt.explore(fn, on_path)
    finally:
        ctx.undo = None


def run_lookup(cc, code, res):
    """bank look-ups for one listed key under the write monitor: the registry must be left as it was"""
    from harness.c02 import bban_chars as _bc
    from harness.c17 import key_fields

    cls = table.classes(cc)
    kf = key_fields(cc)
    if len(kf) != len(code):
        return
    holder = {}

    def fn():
        from schwifty import IBAN
        from schwifty.bic import BIC

        b = _bc(cls)
        for j, ch in zip(kf, code):
            b[j] = ord(ch)
        if cc in ("IT", "SM"):
            for c in b[11:]:
                if not isinstance(c, int):
                    ctx.add(c.guards[0])
        holder["b"] = b
        rt.MONITOR["on"] = True
        ctx.writes = []
        ctx.undo = rt.UndoLog()
        try:
            x = H_try(lambda: IBAN.from_bban(cc, H.symstr(b)))
            if x[0] == "ret":
                H_try(lambda: x[1].bic)
                H_try(lambda: x[1].bank_name)
            H_try(lambda: BIC.candidates_from_bank_code(cc, code))
            H_try(lambda: BIC.from_bank_code(cc, code))
            return frame_violation(set(), ctx.undo)
        finally:
            ctx.undo.restore()
            ctx.undo = None
            rt.MONITOR["on"] = False

    def on_path(out):
        res["obligations"] += 1
        bad = out[1] if out[0] == "ret" else f"look-up harness raised {type(out[1]).__name__}"
        if bad and ctx.final():
            cps = H.model_cps(ctx.model(), holder["b"])
            res["violations"].append({"property": "C15", "what": f"look-ups for bank ({cc},{code}): {bad}", "mode": "violation",
                                      "call": {"steps": [["call", "spec.replay_preds.c15_lookup", [cc, code, H.cp_enc(cps)], {}]]},
                                      "pred": {"kind": "value_is_not", "value": {"cp": [111, 107]}}, "engine": {"outcome": "return"}})

    try:
        rt.explore(fn, on_path)
    finally:
        rt.MONITOR["on"] = False
        ctx.undo = None


try:  # the registry id set must exist before any path runs (ids are only meaningful for live objects)
    registry_ids()
except Exception:  # noqa: BLE001
    pass
