"""C13 - random generation is always valid, honours pinned fields, and is reproducible.

IBAN.random (hence BBAN.random, from_components, from_bban) runs with nondeterministic stubs: the generator's
choice() returns an arbitrary element (countries: engine fork; a country's bank list: an entry whose bank code is a
symbolic string constrained to the codes listed for that country) and rstr's xeger() returns an arbitrary string of
the shape the country's real regex prescribes.  Pinned components are symbolic, field-wide and class-conforming.
The retry loop is explored for two iterations (iterations draw fresh values and share no state).  Per path: the result
is a valid IBAN of the requested country in which every pinned component reads back unchanged - or the documented
overflow error; a registry draw (no pinned bank/branch) yields the drawn bank's code as look-up key; and the engine's
nondeterminism monitor (set iteration, hash(), id(), unseeded Random(), clock) stays silent, so the result is a
function of the arguments and the generator's outputs."""
import random as _random
import re._constants as sre_c
import re._parser as sre_parse

import z3

from harness import common as H
from harness.c11 import neq
from harness.c17 import key_fields
from spec import table
from sx import rt
from sx.core import ctx
from sx.terms import DIGIT, LOWER, UPPER, PChar

BOUNDS = {"quick": {"countries": "the 22 countries with a national algorithm + DE + 8 seeded others + the no-country form", "modes": "registry / no registry", "pins": "none; branch; bank+branch+account", "iterations": "2 of the 100 retries", "hash seed": "two iteration orders of every set iterated by the library (fresh interpreters), sequences handed to choice() compared", "registry draws": "codes of the country's list (chunks of 400, one seeded chunk per country)"},
          "thorough": {"countries": "all", "modes": "both", "pins": "none; bank; branch; account; bank+branch; all three", "iterations": 2, "registry draws": "all chunks"}}
STUBS = ["random.Random.choice: arbitrary element (fork / symbolic bank code constrained to the listed codes)", "rstr.Rstr(random).xeger(regex): arbitrary string matching the regex token by token (\\d = ASCII digits, as rstr draws them)", "range(100) of the retry loop cut to 2 iterations"]
ASSUMPTIONS = ["IT/SM: alphanumeric account characters (drawn or pinned) restricted to digits (letter patterns: C09-A)", "random and rstr are deterministic functions of the seed (their own cross-process behaviour is outside)", "over-long pinned values are truncated by the code (observation, not asserted)", "pin sets other than those listed", "iterations are independent: fresh draws, no carried state"]
MAXTASKS = 20
CHUNK = 400


def country_codes(cc):
    return sorted({e["bank_code"] for e in table.banks() if e.get("country_code") == cc and e.get("bank_code")})


def jobs(tier, seed):
    from spec import national

    rnd = _random.Random(seed)
    ccs = sorted(table.countries())
    if tier != "thorough":
        others = [c for c in ccs if c not in national.COUNTRIES and c != "DE"]
        ccs = sorted(set(national.COUNTRIES) | {"DE"} | set(rnd.sample(others, 8)))
    pinsets = [[], ["branch_code"], ["bank_code", "branch_code", "account_code"]]
    if tier == "thorough":
        pinsets += [["bank_code"], ["account_code"], ["bank_code", "branch_code"]]
    out = []
    for cc in ccs:
        codes = country_codes(cc)
        chunks = [[i, i + CHUNK] for i in range(0, len(codes), CHUNK)] or [None]
        for pins in pinsets:
            out.append({"cc": cc, "reg": False, "pins": pins, "chunk": None})
            for ch in (chunks if tier == "thorough" else [rnd.choice(chunks)]):
                if ch is not None:
                    out.append({"cc": cc, "reg": True, "pins": pins, "chunk": ch})
    n_countries = len({e.get("country_code") for e in table.banks() if e.get("country_code")})
    out.append({"kind": "setorder"})
    for i in (range(n_countries) if tier == "thorough" else rnd.sample(range(n_countries), 6)):
        out.append({"cc": "", "reg": True, "pins": [], "chunk": None, "country_index": i})
    return out


class SymBankEntry:
    """an arbitrary entry of a country's bank list: only its bank code is relevant to random()"""

    def __init__(self, code):
        self.code = code

    def get(self, key, default=None):
        k = str(getattr(key, "value", key))
        if k == "bank_code":
            return self.code
        if k in ("country_code", "primary", "bic", "name", "short_name", "checksum_algo"):
            raise rt.Unmodelled(f"random() reads bank entry field {k}")
        return default

    def __getitem__(self, key):
        r = self.get(key, KeyError)
        if r is KeyError:
            raise KeyError(key)
        return r

    def __bool__(self):
        return True


class SymRandom:
    def __init__(self, job, holder):
        self.job, self.holder = job, holder

    def choice(self, seq):
        seq = list(seq)
        if seq and all(isinstance(x, str) for x in seq):
            i = self.job.get("country_index")
            if i is None or i >= len(seq):
                i = ctx.choose_free(len(seq))
            self.holder["country"] = seq[i]
            return seq[i]
        if seq and all(isinstance(x, dict) for x in seq):
            cc = seq[0].get("country_code")
            codes = country_codes(cc)
            ch = self.job["chunk"] or [0, CHUNK]
            pool = codes[ch[0] : ch[1]]
            has_empty = any(not e.get("bank_code") for e in seq)
            if has_empty and ctx.choose_free(2) == 1:
                self.holder["drawn"] = ""
                return SymBankEntry("")
            lens = sorted({len(c) for c in pool})
            L = lens[ctx.choose_free(len(lens))]
            pool = [c for c in pool if len(c) == L]
            chars = [rt.alnum_char(f"bk{i}") for i in range(L)]
            ctx.add(z3.Or([z3.And([c.term == ord(x) for c, x in zip(chars, code)]) for code in pool]))
            self.holder["drawn"] = chars
            return SymBankEntry(H.symstr(chars))
        raise rt.Unmodelled("random.choice on an unexpected sequence")

    def __getattr__(self, name):
        raise rt.Unmodelled(f"random.{name}")


class SymRstr:
    n = 0
    digits_only = False  # IT / SM: alphanumeric draws restricted to digits (the CIN code forks per letter; letters: C09-A)

    def __init__(self, rnd):
        self.rnd = rnd

    def xeger(self, pattern):
        pat = pattern.pattern if hasattr(pattern, "pattern") else pattern
        SymRstr.n += 1
        out = []

        def emit(items, count):
            classes, lits = [], []
            for op, av in items:
                if op is sre_c.RANGE:
                    classes.append({(48, 57): DIGIT, (65, 90): UPPER, (97, 122): LOWER}.get(tuple(av)))
                elif op is sre_c.CATEGORY and av is sre_c.CATEGORY_DIGIT:
                    classes.append(DIGIT)
                elif op is sre_c.LITERAL:
                    lits.append(av)
                else:
                    raise rt.Unmodelled(f"xeger class item {op}")
            if None in classes or (lits and classes):
                raise rt.Unmodelled("xeger class shape")
            for _ in range(count):
                if lits:
                    out.append(lits[ctx.choose_free(len(lits))])
                else:
                    cl = [DIGIT] if (SymRstr.digits_only and DIGIT in classes) else classes
                    out.append(PChar(f"x{SymRstr.n}_{len(out)}", cl).term)

        for op, av in sre_parse.parse(pat):
            if op is sre_c.AT:
                continue
            if op is sre_c.MAX_REPEAT:
                lo, hi, sub = av
                if lo != hi or len(sub) != 1:
                    raise rt.Unmodelled("xeger repeat shape")
                sop, sav = sub[0]
                if sop is sre_c.IN:
                    emit(sav, lo)
                elif sop is sre_c.LITERAL:
                    out.extend([sav] * lo)
                else:
                    raise rt.Unmodelled(f"xeger op {sop}")
            elif op is sre_c.IN:
                emit(av, 1)
            elif op is sre_c.LITERAL:
                out.append(av)
            else:
                raise rt.Unmodelled(f"xeger op {op}")
        return rt.mkstr(out)


SETORDER_SCRIPT = r"""
import json, sys
sys.path.insert(0, "/verif")
from sx import instr
instr.install()
import schwifty
from schwifty.bban import BBAN

class Stop(Exception):
    pass

class Rec:
    def __init__(self):
        self.seqs = []
    def choice(self, seq):
        self.seqs.append([x if isinstance(x, str) else x.get("bank_code") for x in seq])
        if len(self.seqs) >= 2 or not all(isinstance(x, str) for x in seq):
            raise Stop
        return seq[0]

out = {}
for cc in ("", "DE", "FR"):
    r = Rec()
    try:
        BBAN.random(cc, random=r)
    except Stop:
        pass
    out[cc] = r.seqs
print(json.dumps(out))
"""


def run_setorder(res):
    """every sequence handed to the generator's choice() must be the same under a second legal iteration order of
    every set the library iterates (import time included): the library is imported afresh in two interpreters, one
    of which reverses every set iteration of the instrumented code"""
    import json
    import os
    import subprocess
    import sys

    outs = []
    for rev in ("", "1"):
        env = {**os.environ, "SX_SET_REVERSE": rev}
        if not rev:
            env.pop("SX_SET_REVERSE")
        p = subprocess.run([sys.executable, "-c", SETORDER_SCRIPT], capture_output=True, text=True, env=env, timeout=300)
        try:
            outs.append(json.loads(p.stdout.strip().splitlines()[-1]))
        except Exception:  # noqa: BLE001
            raise rt.Unmodelled("set-order probe failed: " + (p.stderr or p.stdout)[-300:])
    res["obligations"] += 1
    rt.ctx.stats.bump("paths", 2)
    if outs[0] != outs[1]:
        which = [k for k in outs[0] if outs[0][k] != outs[1][k]]
        res["violations"].append({"property": "C13", "what": f"the sequence a seeded generator chooses from depends on set iteration order (hash seed) for country argument(s) {which}", "mode": "violation",
                                  "call": {"steps": [["call", "spec.replay_preds.c13_hashseed", [], {}]]},
                                  "pred": {"kind": "value_is_not", "value": {"cp": [111, 107]}}, "engine": {"outcome": "return"}})
    else:
        res["witnesses"].append({"property": "C13", "what": "seeded draws under two hash seeds", "mode": "witness", "engine": {"outcome": "return", "value": {"cp": [111, 107]}},
                                 "call": {"steps": [["call", "spec.replay_preds.c13_hashseed", [], {}]]}})


def run_job(job, res):
    from schwifty import bban as bban_mod

    if job.get("kind") == "setorder":
        return run_setorder(res)

    cc, pins = job["cc"], job["pins"]
    real_rstr = bban_mod.Rstr
    holder = {}
    wit = {"n": 0}
    rt.RANGE_CAP["n"] = 2

    def pinned_chars(country):
        cls = table.classes(country)
        pos = table.positions(country)
        out = {}
        for k in pins:
            a, b = pos.get(k, (0, 0))
            chars = []
            for i in range(a, b):
                kind = cls[i]
                chars.append(rt.digit_char(f"pin_{k}{i}") if kind == "n" or (kind == "c" and country in ("IT", "SM")) else rt.upper_char(f"pin_{k}{i}") if kind == "a" else rt.alnum_char(f"pin_{k}{i}"))
            if chars:
                out[k] = chars
        return out

    def fn():
        from schwifty import IBAN

        holder.clear()
        SymRstr.n = 0
        ctx.nondet = []
        pc = pinned_chars(cc) if cc else {}
        holder["pins"] = pc
        rnd = SymRandom(job, holder)
        kw = {k: H.symstr(v) for k, v in pc.items()}
        x = IBAN.random(cc, random=rnd, use_registry=job["reg"], **kw)
        return x, [e for e in ctx.nondet if e[0] != "memo"]

    def on_path(out):
        from schwifty.exceptions import GenerateRandomOverflowError

        res["obligations"] += 1
        country = cc or holder.get("country")
        bad = None
        if out[0] == "exc":
            if not isinstance(out[1], GenerateRandomOverflowError):
                bad = f"random() raised {type(out[1]).__name__}"
        else:
            x, nondet = out[1]
            if nondet:
                bad = f"result depends on a nondeterministic source besides the generator: {nondet[:2]}"
            else:
                c = neq(x.country_code, country)
                if c is not False and ((c is True and ctx.final()) or (c is not True and ctx.final(c))):
                    bad = "IBAN of a different country"
                r = _try(lambda: x.validate())
                if bad is None and r[0] != "ret":
                    bad = f"returned IBAN is not valid ({type(r[1]).__name__})"
                if bad is None:
                    for k, chars in holder["pins"].items():
                        c = neq(getattr(x, k), H.symstr(chars))
                        if c is not False and ((c is True and ctx.final()) or (c is not True and ctx.final(c))):
                            bad = f"pinned {k} does not read back unchanged"
                            break
                drawn = holder.get("drawn")
                if bad is None and drawn not in (None, "") and not ({"bank_code", "branch_code"} & set(holder["pins"])):
                    kf = key_fields(country)
                    if len(kf) == len(drawn):
                        key = rt.mkstr([rt.SymStr.of(x.bban._s)._dense().p[j] for j in kf])
                        c = neq(key, H.symstr(drawn))
                        if c is not False and ((c is True and ctx.final()) or (c is not True and ctx.final(c))):
                            bad = "registry-based draw does not belong to the drawn bank"
        if bad:
            if not ctx.final():
                return
            m = ctx.model()
            pv = {k: "".join(map(chr, H.model_cps(m, v))) for k, v in holder["pins"].items()}
            res["violations"].append({"property": "C13", "what": f"IBAN.random({country!r}, use_registry={job['reg']}, pins={pv}): {bad}", "mode": "violation",
                                      "call": {"steps": [["call", "spec.replay_preds.c13_random", [country or "", job["reg"], pv], {}]]},
                                      "pred": {"kind": "value_is_not", "value": {"cp": [111, 107]}}, "engine": H.outcome_of(out)})
        elif wit["n"] < 2 and out[0] == "ret" and ctx.witness():
            wit["n"] += 1
            m = ctx.model()
            pv = {k: "".join(map(chr, H.model_cps(m, v))) for k, v in holder["pins"].items()}
            res["witnesses"].append({"property": "C13", "what": f"random {country} pins {sorted(pv)}", "mode": "witness", "engine": {"outcome": "return", "value": {"cp": [111, 107]}},
                                     "call": {"steps": [["call", "spec.replay_preds.c13_random", [country or "", job["reg"], pv], {}]]}})

    bban_mod.Rstr = SymRstr
    SymRstr.digits_only = cc in ("IT", "SM")
    try:
        rt.explore(fn, on_path)
    finally:
        bban_mod.Rstr = real_rstr
        rt.RANGE_CAP["n"] = 0


def _try(thunk):
    try:
        return ("ret", thunk())
    except Exception as e:  # noqa: BLE001
        return ("exc", e)
