"""Path explorer: decision-prefix replay, solver bookkeeping, abstraction pass."""
import os
import time

import z3


class Unmodelled(BaseException):
    """A symbolic value reached code the engine has no model for -> inconclusive, never a verdict."""


class Inconclusive(BaseException):
    """Solver unknown / limit hit."""


class StopExploration(BaseException):
    """raised by a harness once enough counterexamples were collected for a job"""


class PathAbort(BaseException):
    """Current path is infeasible (or cut by an assumption)."""


QUERY_TIMEOUT_MS = int(os.environ.get("SX_QUERY_TIMEOUT_MS", "150000"))
FORK_TIMEOUT_MS = int(os.environ.get("SX_FORK_TIMEOUT_MS", "20000"))
JOB_BUDGET_S = float(os.environ.get("SX_JOB_BUDGET_S", "0") or 0)
MAX_PATHS = int(os.environ.get("SX_MAX_PATHS", "200000"))


_light_cache = {}


def is_light(c, limit=20000):
    """no mod/div and modest size"""
    k = c.get_id()
    hit = _light_cache.get(k)
    if hit is not None and hit[1].eq(c):
        return hit[0]
    r = _is_light(c, limit)
    if len(_light_cache) > 200000:
        _light_cache.clear()
    _light_cache[k] = (r, c)
    return r


def _is_light(c, limit):
    seen, stack, n = set(), [c], 0
    while stack:
        e = stack.pop()
        i = e.get_id()
        if i in seen:
            continue
        seen.add(i)
        n += 1
        if n > limit:
            return False
        if z3.is_app(e):
            if e.decl().kind() in (z3.Z3_OP_MOD, z3.Z3_OP_IDIV, z3.Z3_OP_DIV, z3.Z3_OP_REM):
                return False
            stack.extend(e.children())
    return True


def _moduli_lcm(exprs, cap=10000):
    import math

    seen, stack, M = set(), list(exprs), 1
    while stack:
        e = stack.pop()
        i = e.get_id()
        if i in seen:
            continue
        seen.add(i)
        if z3.is_app(e):
            if e.decl().kind() == z3.Z3_OP_MOD and z3.is_int_value(e.arg(1)):
                m = e.arg(1).as_long()
                if m > 1:
                    M = M * m // math.gcd(M, m)
            stack.extend(e.children())
    return M if M <= cap else 1


def _consts(e, cache):
    """ids of uninterpreted constants occurring in e"""
    out, seen, stack = set(), set(), [e]
    while stack:
        x = stack.pop()
        i = x.get_id()
        if i in seen:
            continue
        seen.add(i)
        if z3.is_app(x):
            if x.num_args() == 0:
                if x.decl().kind() == z3.Z3_OP_UNINTERPRETED:
                    out.add(i)
            else:
                stack.extend(x.children())
    return out


def _components(fs):
    """partition formulas into variable-disjoint groups (union-find over the constants they mention)"""
    parent = {}

    def find(x):
        while parent.setdefault(x, x) != x:
            parent[x] = parent[parent[x]]
            x = parent[x]
        return x

    keys = []
    for f in fs:
        cs = sorted(_consts(f, None))
        if not cs:
            keys.append(None)
            continue
        r = find(cs[0])
        for c in cs[1:]:
            parent[find(c)] = r
        keys.append(cs[0])
    groups = {}
    for f, k in zip(fs, keys):
        groups.setdefault(find(k) if k is not None else ("g", f.get_id()), []).append(f)
    return list(groups.values())


class Stats(dict):
    def bump(self, k, v=1):
        self[k] = self.get(k, 0) + v


class Ctx:
    def __init__(self):
        self.prefix = []
        self.pos = 0
        self.solver = None
        self.light = None
        self.stats = Stats()
        self.deferred = []
        self.entered = set()
        self.int_memo = {}
        self.active = False
        self.path_notes = []
        self.writes = []  # write monitor events of the current path
        self.nondet = []  # nondeterminism events of the current path
        self.seed = int(os.environ.get("VERIF_SEED", "0") or 0)
        self.on_shared_access = None  # C14 scheduler hook
        self.undo = None  # C15 undo log
        self.deadline = 0
        self.maybe_ok = True  # undecided branch feasibility = explore the branch (see _check)
        self._model_valid = False
        self._final_model = None

    # ---- lifecycle
    def start(self):
        self.pos = 0
        self._model_valid = False
        self.deferred = []
        self.int_memo = {}
        self.def_ids = set()
        self.def_vars = []
        self.path_cache = {}
        self.path_notes = []
        self.writes = []
        self.nondet = []
        self.solver = z3.Solver()
        self.solver.set("timeout", QUERY_TIMEOUT_MS)
        if self.seed:
            self.solver.set("random_seed", self.seed % 1000)
        self.light = z3.Solver()
        self.light.set("timeout", 10000)
        self.active = True

    # ---- raw solver calls
    def _timed(self, solver, *assumptions):
        t = time.time()
        r = solver.check(*assumptions)
        dt = time.time() - t
        if dt > 1.0 and os.environ.get("SX_TRACE"):
            import traceback

            fr = [f for f in traceback.extract_stack()[:-2] if "/sx/" not in f.filename][-2:]
            print(f"[slow query {dt:.1f}s {r}] " + " <- ".join(f"{os.path.basename(f.filename)}:{f.lineno}" for f in fr), flush=True)
        self.stats.bump("queries")
        self.stats.bump("solver_s", dt)
        self.stats.bump("q_" + str(r))
        return r

    def _check(self, *assumptions):
        """feasibility of (path condition and assumptions) on the incremental path solver; when that gives up, the
        query is retried as a final query (fresh solver, abstraction, components)"""
        if self.def_ids and assumptions and not all(is_light(a) for a in assumptions):
            # arithmetic over memoised prefix integers: the abstraction pass (definitions dropped, residues bounded) is
            # the robust way to refute such a branch; the incremental core is erratic on them
            if self._abstract_unsat(list(self.solver.assertions()), assumptions, 30000):
                return False
        self.solver.set("timeout", FORK_TIMEOUT_MS)
        r = self._timed(self.solver, *assumptions)
        if r == z3.unknown:
            self.stats.bump("fork_retries")
            try:
                return self.final(*assumptions)
            except Inconclusive:
                if not self.maybe_ok:
                    raise
                # feasibility could not be decided: the branch is explored as if feasible.  This only adds paths (an
                # over-approximation): obligations at path ends are still decided by final queries, and a reported
                # counterexample needs a model and a successful replay, so neither soundness direction is affected.
                self.stats.bump("maybe_feasible")
                return True
        return r == z3.sat

    def _abstract_unsat(self, asserts, assumptions, timeout_ms):
        abs_asserts = [a for a in asserts if a.get_id() not in self.def_ids] + list(assumptions)
        M = _moduli_lcm(abs_asserts)
        if M > 1:
            subs, extra = [], []
            for i, (tv, _d) in enumerate(self.def_vars):
                k, r = z3.Int(f"__k{i}"), z3.Int(f"__r{i}")
                subs.append((tv, M * k + r))
                extra += [k >= 0, r >= 0, r < M]
            abs_asserts = [z3.simplify(z3.substitute(a, *subs)) for a in abs_asserts] + extra
        r, _ = self._solve_components(abs_asserts, timeout_ms, want_model=False)
        if r == z3.unsat:
            self.stats.bump("abs_unsat")
            return True
        return False

    # ---- cached (replayed) auxiliary answers
    def _aux(self, compute):
        if self.pos < len(self.prefix):
            ent = self.prefix[self.pos]
            if ent[0] != "aux":
                raise Inconclusive(f"non-deterministic re-execution (expected aux, got {ent!r})")
            self.pos += 1
            return ent[1]
        r = compute()
        self.prefix.append(["aux", r])
        self.pos += 1
        return r

    def check(self, *assumptions):
        """is (path condition and assumptions) satisfiable?  cached across re-executions"""
        return self._aux(lambda: self._check(*assumptions))

    def must(self, cond):
        return not self.check(z3.Not(cond))

    def light_feasible(self, c):
        """over-approximate feasibility under the mod/div-free part of the path condition"""

        def go():
            t = time.time()
            r = self.light.check(c) != z3.unsat
            self.stats.bump("queries")
            self.stats.bump("q_light")
            self.stats.bump("solver_s", time.time() - t)
            return r

        return self._aux(go)

    # ---- final (property) queries: never cached, deferred domains asserted, abstraction first
    def flush_deferred(self):
        """domain conditions of range-set variables are never given to the incremental path solver; final queries
        attach them to the component that mentions the variable (see _solve_components)"""
        return None

    def witness(self, *assumptions):
        """best-effort model of the current path (plus assumptions): True if one was found (self.model()), False if
        the solver could not produce one in time.  Never inconclusive: witnesses are vacuity evidence, not verdicts."""
        try:
            return self.final(*assumptions, expect_sat=True)
        except Inconclusive:
            self.stats.bump("witness_unknown")
            return False

    def final(self, *assumptions, expect_sat=False):
        """satisfiable?  (True = sat -> model available through self.model()).

        Final (property) queries are decided outside the incremental path solver: the path condition plus the query
        is preprocessed (simplify / propagate-values), split into variable-disjoint components and each component is
        given to a fresh solver (the conjunction is unsat iff some component is).  Before that, the abstraction pass
        drops the definitions of memoised prefix integers (sound for unsat)."""
        if not assumptions and self._model_valid:
            return True  # the model of the last satisfiable final query is still a model of the (unchanged) path
        self.flush_deferred()
        self._model_valid = False
        asserts = list(self.solver.assertions())
        if self.def_ids and not expect_sat:
            # every T >= 0 is written as M*k + r (0 <= r < M, k >= 0), M = lcm of the constant moduli in the query:
            # an equivalent reformulation that lets z3 reduce `mod M` terms to the bounded residue r.
            if self._abstract_unsat(asserts, assumptions, min(40000, QUERY_TIMEOUT_MS)):
                return False
        r, m = self._solve_components(
            asserts + list(assumptions), 4000 if expect_sat else QUERY_TIMEOUT_MS, want_model=True, expect_sat=expect_sat
        )
        if r == z3.unknown:
            raise Inconclusive("solver unknown on a final query")
        self._final_model = m
        self._model_valid = r == z3.sat
        return r == z3.sat

    _prep = None

    def _solve_components(self, formulas, timeout_ms, want_model, expect_sat=False):
        if Ctx._prep is None:
            Ctx._prep = z3.Then("simplify", "propagate-values", "simplify", "propagate-values")
        g = z3.Goal()
        g.add(formulas)
        t0 = time.time()
        sub = Ctx._prep(g)
        fs = [f for f in sub[0]]
        self.stats.bump("solver_s", time.time() - t0)
        if any(z3.is_false(f) for f in fs):
            self.stats.bump("queries")
            self.stats.bump("q_unsat")
            return z3.unsat, None
        used = set()
        for f in fs:
            used |= _consts(f, None)
        skipped = []
        for var, cond, sample in self.deferred:
            if var.get_id() in used:
                fs.append(cond)
            else:
                skipped.append((var, sample))
        comps = _components(fs)
        models, unknown = [], False
        for comp in sorted(comps, key=len):
            # plain SMT core for mod/div-free components (the default strategy is slow on big range disjunctions)
            light = all(is_light(f) for f in comp)
            # portfolio: z3 is erratic on the mod-97 components (same formula: 0.1 s or no answer), so several
            # configurations get a share of the budget; the first definite answer wins
            if light or expect_sat:
                attempts = [("simple", 0, 1.0)]
                if not light:
                    attempts.append(("default", 0, 1.0))
            else:
                attempts = [("default", 0, 0.2), ("simple", 0, 0.15), ("default", 7, 0.15), ("lia", 0, 0.15), ("default", 23, 0.35)]
            r = z3.unknown
            for kind, seed, share in attempts:
                if kind == "simple":
                    s = z3.SimpleSolver()
                elif kind == "lia":
                    s = z3.Then("simplify", "solve-eqs", "smt").solver()
                else:
                    s = z3.Solver()
                s.set("timeout", max(1000, int(timeout_ms * share)))
                sd = (self.seed + seed) % 1000
                if sd:
                    s.set("random_seed", sd)
                s.add(comp)
                r = self._timed(s)
                if r != z3.unknown:
                    break
                self.stats.bump("portfolio_retries")
            if r == z3.unsat:
                return z3.unsat, None
            if r == z3.unknown:
                unknown = True
            elif want_model:
                models.append(s.model())
        if unknown:
            return z3.unknown, None
        if not want_model:
            return z3.sat, None
        # full model: pin the component models' values, then undo the preprocessing with its model converter
        s = z3.Solver()
        for m in models:
            for d in m.decls():
                if d.arity() == 0:
                    s.add(d() == m[d])
        for var, sample in skipped:
            s.add(var == sample)
        if s.check() != z3.sat:
            return z3.unknown, None
        return z3.sat, sub[0].convert_model(s.model())

    def model(self):
        return self._final_model

    # ---- constraints
    def add(self, c):
        self._model_valid = False
        if isinstance(c, bool):
            if not c:
                raise PathAbort("assumed False")
            return
        self.solver.add(c)
        if is_light(c):
            self.light.add(c)

    def push(self):
        self.solver.push()
        self.light.push()

    def pop(self):
        self._model_valid = False
        self.solver.pop()
        self.light.pop()

    def define(self, var, expr):
        """var is an opaque name for expr (a big memoised prefix integer); the abstraction pass drops the definition"""
        d = var == expr
        self.solver.add(d)
        self.solver.add(var >= 0)
        self.light.add(var >= 0)
        self.def_ids.add(d.get_id())
        self.def_vars.append((var, d))

    def assume(self, cond):
        """restrict the current path (harness precondition); infeasible -> path dropped"""
        from sx.values import SymBool

        if isinstance(cond, SymBool):
            cond = cond.e
        if isinstance(cond, bool):
            if not cond:
                raise PathAbort("assume")
            return
        cond = z3.simplify(cond)
        if z3.is_true(cond):
            return
        if z3.is_false(cond):
            raise PathAbort("assume")
        if not self.check(cond):
            raise PathAbort("assume infeasible")
        self.add(cond)

    # ---- forks
    def choose_n(self, conds, labels=None):
        """conds: mutually exclusive & exhaustive z3 Bools.  Returns the index taken on this path."""
        if self.pos < len(self.prefix):
            ent = self.prefix[self.pos]
            if ent[0] == "aux":
                raise Inconclusive("non-deterministic re-execution (expected fork, got aux)")
            idx = ent[0]
            self.pos += 1
            if len(ent[1]) > 1:
                self.add(conds[idx])
            return idx
        feas = [i for i, c in enumerate(conds) if self._feasible(c)]
        if not feas:
            raise PathAbort("infeasible")
        self.prefix.append([feas[0], feas])
        self.pos += 1
        if len(feas) > 1:
            self.stats.bump("forks", len(feas) - 1)
            self.add(conds[feas[0]])
        # a single feasible alternative is entailed by the path condition (the others were refuted): not re-asserted
        return feas[0]

    def _feasible(self, c):
        """branch feasibility: refuted cheaply by the mod/div-free part of the path condition when possible"""
        if is_light(c):
            t = time.time()
            r = self.light.check(c)
            self.stats.bump("queries")
            self.stats.bump("q_light")
            self.stats.bump("solver_s", time.time() - t)
            if r == z3.unsat:
                return False
        return self._check(c)

    def choose(self, cond):
        cond = z3.simplify(cond)
        if z3.is_true(cond):
            return True
        if z3.is_false(cond):
            return False
        return self.choose_n([cond, z3.Not(cond)]) == 0

    def choose_free(self, n):
        """unconstrained n-way nondeterministic choice (schedules, set order, shapes)"""
        if n <= 1:
            return 0
        if self.pos < len(self.prefix):
            ent = self.prefix[self.pos]
            if ent[0] == "aux":
                raise Inconclusive("non-deterministic re-execution (expected free fork)")
            self.pos += 1
            return ent[0]
        self.prefix.append([0, list(range(n))])
        self.pos += 1
        self.stats.bump("forks", n - 1)
        return 0

    def backtrack(self):
        while self.prefix:
            ent = self.prefix[-1]
            if ent[0] == "aux":
                self.prefix.pop()
                continue
            idx, feas = ent
            k = feas.index(idx)
            if k + 1 < len(feas):
                self.prefix[-1] = [feas[k + 1], feas]
                return True
            self.prefix.pop()
        return False


ctx = Ctx()


def explore(fn, on_path, max_paths=None):
    """Run fn() over all feasible paths.  on_path(outcome) at each path end, outcome = ('ret', v) | ('exc', e)."""
    max_paths = max_paths or MAX_PATHS
    ctx.prefix = []
    n = 0
    try:
        while True:
            ctx.start()
            try:
                out = ("ret", fn())
            except PathAbort:
                out = None
            except Exception as e:  # noqa: BLE001  (library exceptions are outcomes)
                out = ("exc", e)
            if out is not None:
                n += 1
                ctx.stats.bump("paths")
                try:
                    on_path(out)
                except PathAbort:
                    pass
                except StopExploration:
                    return n
            if n >= max_paths:
                raise Inconclusive(f"path limit {max_paths} reached")
            if ctx.deadline and time.time() > ctx.deadline:
                raise Inconclusive(f"job time budget exhausted after {n} paths")
            if not ctx.backtrack():
                break
    finally:
        ctx.active = False
    return n
