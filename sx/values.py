"""Symbolic proxies: SymBool, SymInt, SymStr (pieces incl. Dec and Opt), StrBase."""
import builtins

import z3

from sx.core import Unmodelled, ctx
from sx.terms import ival, map_leaves


def mkint(e):
    e = z3.simplify(e)
    if z3.is_int_value(e):
        return e.as_long()
    return SymInt(e)


def mkbool(e):
    if isinstance(e, bool):
        return e
    e = z3.simplify(e)
    if z3.is_true(e):
        return True
    if z3.is_false(e):
        return False
    return SymBool(e)


def zi(x):
    if isinstance(x, SymInt):
        return x.e
    if isinstance(x, bool):
        return z3.IntVal(int(x))
    if isinstance(x, int):
        return z3.IntVal(x)
    if isinstance(x, SymBool):
        return z3.If(x.e, 1, 0)
    raise Unmodelled(f"integer expected, got {type(x).__name__}")


def zb(x):
    if isinstance(x, SymBool):
        return x.e
    if isinstance(x, bool):
        return z3.BoolVal(x)
    if isinstance(x, z3.BoolRef):
        return x
    raise Unmodelled(f"bool expected, got {type(x).__name__}")


def zc(x):
    return z3.IntVal(x) if isinstance(x, int) else x


class SymBool:
    def __init__(self, e):
        self.e = e

    def __bool__(self):
        return ctx.choose(self.e)

    def __eq__(self, o):
        if isinstance(o, (bool, SymBool)):
            return mkbool(self.e == zb(o))
        return NotImplemented

    def __ne__(self, o):
        if isinstance(o, (bool, SymBool)):
            return mkbool(self.e != zb(o))
        return NotImplemented

    def __and__(self, o):
        return mkbool(z3.And(self.e, zb(o)))

    __rand__ = __and__

    def __or__(self, o):
        return mkbool(z3.Or(self.e, zb(o)))

    __ror__ = __or__

    def __invert__(self):
        raise Unmodelled("~ on SymBool")

    def __index__(self):
        raise Unmodelled("SymBool leaked to __index__")

    def __str__(self):
        raise Unmodelled("SymBool leaked to __str__")

    __repr__ = object.__repr__
    __hash__ = None


class SymInt:
    src = None  # digit-string provenance: pieces p with self == int(concat(p)), set by the int() model

    def __init__(self, e, src=None):
        self.e = e
        if src is not None:
            self.src = src

    def __add__(s, o):
        return mkint(s.e + zi(o))

    def __radd__(s, o):
        return mkint(zi(o) + s.e)

    def __sub__(s, o):
        return mkint(s.e - zi(o))

    def __rsub__(s, o):
        return mkint(zi(o) - s.e)

    def __mul__(s, o):
        r = mkint(s.e * zi(o))
        if s.src is not None and isinstance(o, int) and not isinstance(o, bool) and isinstance(r, SymInt):
            k = len(builtins.str(o)) - 1
            if o == 10**k and k >= 0:
                r.src = tuple(s.src) + (48,) * k  # times 10^k appends k zero digits
        return r

    def __rmul__(s, o):
        return s.__mul__(o) if isinstance(o, int) and not isinstance(o, bool) else mkint(zi(o) * s.e)

    def __neg__(s):
        return mkint(-s.e)

    def __pos__(s):
        return s

    def __mod__(s, o):
        if isinstance(o, int) and not isinstance(o, bool) and o > 0:
            b = ival(s.e)
            if b is not None and b[0] >= 0 and b[1] < o:
                return s
            return mkint(s.e % o)  # Python % == SMT-LIB mod for a positive divisor
        raise Unmodelled("mod by non-positive/symbolic divisor")

    def __rmod__(s, o):
        raise Unmodelled("mod by symbolic divisor")

    def __floordiv__(s, o):
        if isinstance(o, int) and not isinstance(o, bool) and o > 0:
            ex = _exact_div(s.e, o)
            if ex is not None:
                return mkint(ex)
            return mkint(s.e / o)  # SMT-LIB div floors for a positive divisor
        raise Unmodelled("floordiv by non-positive/symbolic divisor")

    def __truediv__(s, o):
        raise Unmodelled("true division of symbolic int (float)")

    def __divmod__(s, o):
        return (s // o, s % o)

    def __eq__(s, o):
        if isinstance(o, (int, SymInt, SymBool)):
            return mkbool(s.e == zi(o))
        return False

    def __ne__(s, o):
        if isinstance(o, (int, SymInt, SymBool)):
            return mkbool(s.e != zi(o))
        return True

    def __lt__(s, o):
        return mkbool(s.e < zi(o))

    def __le__(s, o):
        return mkbool(s.e <= zi(o))

    def __gt__(s, o):
        return mkbool(s.e > zi(o))

    def __ge__(s, o):
        return mkbool(s.e >= zi(o))

    def __bool__(s):
        return ctx.choose(s.e != 0)

    def __index__(s):
        raise Unmodelled("SymInt leaked to __index__")

    def __int__(s):
        raise Unmodelled("SymInt leaked to __int__")

    def __float__(s):
        raise Unmodelled("SymInt leaked to __float__")

    def __str__(s):
        raise Unmodelled("SymInt leaked to __str__")

    def __format__(s, f):
        raise Unmodelled("SymInt leaked to __format__")

    __repr__ = object.__repr__
    __hash__ = None


def _exact_div(e, o):
    """e / o when e is syntactically a sum of multiples of o (then floor division is exact); else None"""
    e = z3.simplify(e)

    def term(t):
        if z3.is_int_value(t):
            return z3.IntVal(t.as_long() // o) if t.as_long() % o == 0 else None
        if z3.is_app(t) and t.decl().kind() == z3.Z3_OP_MUL and t.num_args() == 2 and z3.is_int_value(t.arg(0)):
            c = t.arg(0).as_long()
            return (c // o) * t.arg(1) if c % o == 0 else None
        return None

    if z3.is_app(e) and e.decl().kind() == z3.Z3_OP_ADD:
        parts = [term(t) for t in e.children()]
        if all(p is not None for p in parts):
            return z3.Sum(parts)
        return None
    return term(e)


class Dec:
    """decimal rendering of a non-negative int term, width in [wlo, whi] (zero padded up to wlo)"""

    def __init__(self, v, wlo, whi):
        self.v, self.wlo, self.whi = v, wlo, whi

    def width(self):
        if self.wlo == self.whi:
            return z3.IntVal(self.wlo)

        def leafw(l):
            b = ival(l)
            if b is not None:
                wl = max(self.wlo, len(builtins.str(max(b[0], 0))))
                wh = max(self.wlo, len(builtins.str(max(b[1], 0))))
                if wl == wh:
                    return z3.IntVal(wl)
            w = z3.IntVal(self.whi)
            for k in range(self.whi - 1, self.wlo - 1, -1):
                w = z3.If(l < 10**k, k, w)
            return w

        return z3.simplify(map_leaves(self.v, leafw))


def _small_digits(v, w, lo, hi):
    """decimal digits (most significant first) of a small bounded term without div/mod: the leading digit is a
    piecewise-constant function of v (threshold If-chain), the rest is v minus that digit's weight"""
    if w == 1:
        return [v]
    p = 10 ** (w - 1)
    tlo, thi = lo // p, hi // p
    top = z3.IntVal(thi)
    for t in range(thi - 1, tlo - 1, -1):
        top = z3.If(v < (t + 1) * p, t, top)
    rem = v - top * p
    return [top] + _small_digits(rem, w - 1, 0 if tlo != thi else lo - tlo * p, p - 1 if tlo != thi else hi - tlo * p)


class Opt:
    """optional character (symbolic presence).  Only `Pattern.sub` of a class containing it may consume it."""

    def __init__(self, present, ch, cls_ranges):
        self.present, self.ch, self.cls_ranges = present, ch, cls_ranges


class SymStr:
    """sequence of pieces: int (concrete code point) | z3 Int term (code point) | Dec | Opt"""

    def __init__(self, pieces):
        self.p = list(pieces)

    @staticmethod
    def of(x):
        if isinstance(x, SymStr):
            return x
        if isinstance(x, StrBase):
            return SymStr.of(x._s)
        if isinstance(x, str):
            return SymStr([ord(c) for c in x])
        raise Unmodelled(f"string expected, got {type(x).__name__}")

    def dense(self):
        return not any(isinstance(q, (Dec, Opt)) for q in self.p)

    def norm(self):
        """expand fixed width Dec into chars"""
        if self.dense():
            return self
        out = []
        opts = [q for q in self.p if isinstance(q, Opt)]
        if len(opts) >= 2:
            # explore the two extreme patterns first (no slot present / every slot present), then the mixed ones
            none = z3.And([z3.Not(q.present) for q in opts])
            every = z3.And([q.present for q in opts])
            ctx.choose_n([none, every, z3.Not(z3.Or(none, every))])
        for q in self.p:
            if isinstance(q, Opt):
                # an optional slot reached an operation other than Pattern.sub: fork on its presence
                if ctx.choose(q.present):
                    out.append(q.ch)
                continue
            if isinstance(q, Dec) and q.wlo == q.whi:
                b = ival(q.v)
                if q.wlo == 1:
                    out.append(z3.simplify(q.v + 48))
                    continue
                if b is not None and 0 <= b[0] and b[1] < 10**q.wlo and b[1] < 10000:
                    out.extend(z3.simplify(d + 48) for d in _small_digits(q.v, q.wlo, b[0], b[1]))
                    continue
                for k in range(q.wlo - 1, -1, -1):
                    out.append(z3.simplify((q.v / (10**k)) % 10 + 48))
            else:
                out.append(q)
        return SymStr(out)

    def concrete(self):
        if all(isinstance(q, int) for q in self.p):
            return "".join(map(chr, self.p))
        return None

    def fix_widths(self):
        out = []
        for q in self.p:
            if isinstance(q, Dec) and q.wlo != q.whi:
                ws = list(range(q.whi, q.wlo - 1, -1))  # widest first: long expansions are the rare, interesting inputs
                w = q.width()
                i = ctx.choose_n([w == k for k in ws])
                out.append(Dec(q.v, ws[i], ws[i]))
            else:
                out.append(q)
        return SymStr(out).norm()

    def _dense(self):
        s = self.norm()
        if not s.dense():
            s = s.fix_widths()
        return s

    def __len__(self):
        return len(self._dense().p)

    def __iter__(self):
        return iter([mkstr([q]) for q in self._dense().p])

    def __reversed__(self):
        return iter([mkstr([q]) for q in reversed(self._dense().p)])

    def _aligned_slice(self, k):
        """slice that cuts no fixed-width decimal piece: keep the pieces intact (no digit extraction)"""
        if k.step not in (None, 1) or any(isinstance(x, SymInt) for x in (k.start, k.stop)):
            return None
        ws = []
        for q in self.p:
            if isinstance(q, Opt) or (isinstance(q, Dec) and q.wlo != q.whi):
                return None
            ws.append(q.wlo if isinstance(q, Dec) else 1)
        start, stop, _ = k.indices(sum(ws))
        out, pos = [], 0
        for q, w in zip(self.p, ws):
            lo, hi = pos, pos + w
            pos = hi
            if hi <= start or lo >= stop:
                continue
            if lo >= start and hi <= stop:
                out.append(q)
            else:
                return None
        return out

    def __getitem__(self, k):
        if isinstance(k, slice) and not self.dense():
            al = self._aligned_slice(k)
            if al is not None:
                return mkstr(al)
        s = self._dense()
        if isinstance(k, slice):
            if any(isinstance(x, SymInt) for x in (k.start, k.stop, k.step)):
                raise Unmodelled("symbolic slice bound")
            return mkstr(s.p[k])
        if isinstance(k, SymInt):
            raise Unmodelled("symbolic index into symbolic string")
        return mkstr([s.p[k]])

    def __add__(self, o):
        if not isinstance(o, (str, SymStr, StrBase)):
            return NotImplemented
        return mkstr(self.p + SymStr.of(o).p)

    def __radd__(self, o):
        if not isinstance(o, (str, SymStr, StrBase)):
            return NotImplemented
        return mkstr(SymStr.of(o).p + self.p)

    def __mul__(self, n):
        if isinstance(n, int):
            return mkstr(self.p * n)
        raise Unmodelled("str * symbolic")

    # Python gives the reflected method of a *subclass* operand priority (str OP str-subclass); StrBase stands for
    # such subclasses, so a symbolic plain string defers to an overriding StrBase operand first.
    @staticmethod
    def _defer(o, name):
        if isinstance(o, StrBase):
            m = getattr(type(o), name, None)
            if m is not None and m is not getattr(StrBase, name, None):
                return m
        return None

    def __eq__(self, o):
        m = self._defer(o, "__eq__")
        if m is not None:
            return m(o, self)
        if isinstance(o, (str, SymStr, StrBase)):
            return str_eq(self, SymStr.of(o))
        return False

    def __ne__(self, o):
        m = self._defer(o, "__ne__")
        if m is not None:
            return m(o, self)
        r = self.__eq__(o)
        return mkbool(z3.Not(r.e)) if isinstance(r, SymBool) else (not r)

    def __lt__(self, o):
        m = self._defer(o, "__gt__")
        if m is not None:
            return m(o, self)
        return str_lt(self, SymStr.of(o))

    def __gt__(self, o):
        m = self._defer(o, "__lt__")
        if m is not None:
            return m(o, self)
        return str_lt(SymStr.of(o), self)

    def __le__(self, o):
        m = self._defer(o, "__ge__")
        if m is not None:
            return m(o, self)
        r = str_lt(SymStr.of(o), self)
        return mkbool(z3.Not(r.e)) if isinstance(r, SymBool) else (not r)

    def __ge__(self, o):
        m = self._defer(o, "__le__")
        if m is not None:
            return m(o, self)
        r = str_lt(self, SymStr.of(o))
        return mkbool(z3.Not(r.e)) if isinstance(r, SymBool) else (not r)

    def __bool__(self):
        if all(isinstance(q, Dec) or not isinstance(q, Opt) for q in self.p) and self.p:
            return True
        return len(self) > 0

    def __str__(self):
        raise Unmodelled("SymStr leaked to __str__")

    def __format__(self, f):
        raise Unmodelled("SymStr leaked to __format__")

    def __index__(self):
        raise Unmodelled("SymStr leaked to __index__")

    __repr__ = object.__repr__

    def __hash__(self):
        return 0  # all symbolic strings collide; equality (a symbolic Boolean, i.e. a fork) decides hash-table membership


    # ---- str methods (models live in sx.models; bound lazily to avoid an import cycle)
    def upper(self):
        from sx import models

        return models.model_upper(self)

    def lower(self):
        raise Unmodelled("str.lower on symbolic string")

    def startswith(self, pre, *a):
        if a or not isinstance(pre, (str, SymStr, StrBase)):
            raise Unmodelled("startswith form")
        n = len(SymStr.of(pre))
        return self[:n] == pre if len(self) >= n else False

    def endswith(self, suf, *a):
        if a or not isinstance(suf, (str, SymStr, StrBase)):
            raise Unmodelled("endswith form")
        n = len(SymStr.of(suf))
        if n == 0:
            return True
        return self[-n:] == suf if len(self) >= n else False

    def zfill(self, w):
        from sx import models

        return models.model_zfill(self, w)

    def rstrip(self, chars=None):
        from sx import models

        return models.strip_model(self, chars, right=True)

    def lstrip(self, chars=None):
        from sx import models

        return models.strip_model(self, chars, right=False)

    def index(self, *a):
        raise Unmodelled("symbolic str.index")

    def _pred(self, name):
        from sx import models

        return models.model_str_pred(self, name)

    def isdigit(self):
        return self._pred("isdigit")

    def isalnum(self):
        return self._pred("isalnum")

    def isalpha(self):
        return self._pred("isalpha")

    def isdecimal(self):
        return self._pred("isdecimal")

    def isnumeric(self):
        return self._pred("isnumeric")

    def isspace(self):
        return self._pred("isspace")

    def isascii(self):
        return self._pred("isascii")

    def isprintable(self):
        return self._pred("isprintable")

    def islower(self):
        return self._pred("islower")

    def isupper(self):
        return self._pred("isupper")

    def join(self, it):
        from sx import models

        return models.model_join(self, it)

    def translate(self, table):
        from sx import models

        return models.model_translate(self, table)

    def __getattr__(self, name):
        if name.startswith("__"):
            raise AttributeError(name)
        raise Unmodelled(f"str.{name} on symbolic string")


def mkstr(pieces):
    out = []
    for q in pieces:
        if not isinstance(q, (int, Dec, Opt)) and z3.is_int_value(q):
            q = q.as_long()
        out.append(q)
    if all(isinstance(q, int) for q in out):
        return "".join(map(chr, out))
    return SymStr(out)


def str_eq(a, b):
    if len(a.p) == len(b.p) and not (a.dense() and b.dense()):
        # piecewise comparison when both sides have the same fixed-width piece structure
        conds, ok = [], True
        for x, y in zip(a.p, b.p):
            if isinstance(x, Dec) and isinstance(y, Dec) and x.wlo == x.whi == y.wlo == y.whi:
                conds.append(x.v == y.v)
            elif isinstance(x, (Dec, Opt)) or isinstance(y, (Dec, Opt)):
                ok = False
                break
            elif isinstance(x, int) and isinstance(y, int):
                if x != y:
                    return False
            else:
                conds.append(zc(x) == zc(y))
        if ok:
            return mkbool(z3.And(conds)) if conds else True
    al = _aligned_eq(a, b)
    if al is not None:
        return al
    a, b = a.norm(), b.norm()
    if not (a.dense() and b.dense()):
        # var-width decimal pieces: equal iff same width and same digits; fork on the widths
        a, b = a.fix_widths(), b.fix_widths()
    if len(a.p) != len(b.p):
        return False
    conds = []
    for x, y in zip(a.p, b.p):
        if isinstance(x, int) and isinstance(y, int):
            if x != y:
                return False
            continue
        conds.append(zc(x) == zc(y))
    return mkbool(z3.And(conds)) if conds else True


def _aligned_eq(a, b):
    """equality when fixed-width decimal pieces on one side face plain characters on the other: compare the
    number with the value of the digit characters instead of extracting digits (keeps the arithmetic linear)"""
    if a.dense() and b.dense():
        return None

    def widths(s):
        out = []
        for q in s.p:
            if isinstance(q, Opt) or (isinstance(q, Dec) and q.wlo != q.whi):
                return None
            out.append(q.wlo if isinstance(q, Dec) else 1)
        return out

    wa, wb = widths(a), widths(b)
    if wa is None or wb is None:
        return None
    if sum(wa) != sum(wb):
        return False
    # expand both sides into unit slots: ("c", term) or ("D", dec, k) with k = digit index from the left
    def slots(s, ws):
        out = []
        for q, w in zip(s.p, ws):
            if isinstance(q, Dec):
                out.extend(("D", q, k) for k in range(w))
            else:
                out.append(("c", q))
        return out

    sa, sb = slots(a, wa), slots(b, wb)
    conds, i, n = [], 0, len(sa)
    while i < n:
        x, y = sa[i], sb[i]
        if x[0] == "c" and y[0] == "c":
            if isinstance(x[1], int) and isinstance(y[1], int):
                if x[1] != y[1]:
                    return False
            else:
                conds.append(zc(x[1]) == zc(y[1]))
            i += 1
            continue
        d = x if x[0] == "D" else y
        dec = d[1]
        w = dec.wlo
        if d[2] != 0 or i + w > n:
            return None
        other = sb if x[0] == "D" else sa
        seg = other[i : i + w]
        if all(t[0] == "D" and t[1] is seg[0][1] for t in seg) and seg[0][2] == 0 and seg[0][1].wlo == w:
            conds.append(dec.v == seg[0][1].v)
        elif all(t[0] == "c" for t in seg):
            val = 0
            for t in seg:
                c = zc(t[1])
                conds.append(z3.And(c >= 48, c <= 57))
                val = val * 10 + (c - 48)
            conds.append(dec.v == val)
        else:
            return None
        i += w
    return mkbool(z3.And(conds)) if conds else True


def str_lt(a, b):
    """lexicographic order by code point (CPython compares str by code point)"""
    a, b = a._dense(), b._dense()
    n = min(len(a.p), len(b.p))
    res = z3.BoolVal(len(a.p) < len(b.p))
    for i in range(n - 1, -1, -1):
        x, y = zc(a.p[i]), zc(b.p[i])
        res = z3.If(x < y, True, z3.If(x > y, False, res))
    return mkbool(res)


class StrBase:
    """stand-in for `str` as base class of schwifty.common.Base: str protocol over a symbolic or concrete payload"""

    __slots__ = ("_s", "__dict__")  # the payload is not an instance attribute (a real str has none)

    def __new__(cls, value="", *a, **k):
        o = object.__new__(cls)
        if isinstance(value, StrBase):
            value = value._s
        if not isinstance(value, (str, SymStr)):
            if isinstance(value, (SymInt, SymBool)):
                raise Unmodelled("str() of symbolic number into StrBase")
            value = builtins.str(value)
        o._s = value
        return o

    def __init__(self, *a, **k):
        pass

    def __len__(self):
        return len(self._s)

    def __iter__(self):
        return iter(self._s)

    def __reversed__(self):
        return reversed(self._s)

    def __getitem__(self, k):
        from sx import rt

        return rt.getitem(self._s, k)

    def __add__(self, o):
        if not isinstance(o, (str, SymStr, StrBase)):
            return NotImplemented
        o = o._s if isinstance(o, StrBase) else o
        if isinstance(self._s, str) and isinstance(o, str):
            return self._s + o
        return SymStr.of(self._s) + o

    def __radd__(self, o):
        if not isinstance(o, (str, SymStr)):
            return NotImplemented
        if isinstance(self._s, str) and isinstance(o, str):
            return o + self._s
        return SymStr.of(o) + self._s

    def __mul__(self, n):
        return self._s * n

    def __eq__(self, o):
        if isinstance(o, (str, SymStr, StrBase)):
            return self._s == (o._s if isinstance(o, StrBase) else o)
        return False

    def __ne__(self, o):
        r = self.__eq__(o)
        return mkbool(z3.Not(r.e)) if isinstance(r, SymBool) else (not r)

    def __lt__(self, o):
        o = o._s if isinstance(o, StrBase) else o
        if isinstance(self._s, str) and isinstance(o, str):
            return self._s < o
        return str_lt(SymStr.of(self._s), SymStr.of(o))

    def __hash__(self):
        from sx import rt

        return rt.model_hash(self._s)

    def __bool__(self):
        return len(self._s) > 0

    def __str__(self):
        if isinstance(self._s, str):
            return self._s
        raise Unmodelled("symbolic StrBase leaked to __str__")

    def __repr__(self):
        return f"<{type(self).__name__} payload>"

    def __format__(self, spec):
        if isinstance(self._s, str):
            return format(self._s, spec)
        raise Unmodelled("symbolic StrBase leaked to __format__")

    def __contains__(self, item):
        from sx import rt

        return rt.contains(self._s, item)

    # pickling / copy protocol of a str subclass (documented behaviour of object.__reduce_ex__(2+) for str subclasses:
    # copyreg.__newobj__, (cls, str_value), state)
    def __getnewargs__(self):
        return (self._s,)

    def __reduce_ex__(self, protocol):
        import copyreg

        # object.__reduce_ex__ defers to a __reduce__ the class overrides, and takes the state from an overridden __getstate__
        red = getattr(type(self), "__reduce__", None)
        if red is not None and red is not object.__reduce__:
            return red(self)
        gs = getattr(type(self), "__getstate__", None)
        if gs is not None and gs is not getattr(object, "__getstate__", None):
            return (copyreg.__newobj__, (type(self),) + tuple(self.__getnewargs__()), gs(self))
        state = self.__dict__.copy()
        return (copyreg.__newobj__, (type(self),) + tuple(self.__getnewargs__()), state or None)

    def __gt__(self, o):
        o = o._s if isinstance(o, StrBase) else o
        if isinstance(self._s, str) and isinstance(o, str):
            return self._s > o
        return str_lt(SymStr.of(o), SymStr.of(self._s))

    def __le__(self, o):
        r = StrBase.__gt__(self, o)
        return mkbool(z3.Not(r.e)) if isinstance(r, SymBool) else (not r)

    def __ge__(self, o):
        r = StrBase.__lt__(self, o)
        return mkbool(z3.Not(r.e)) if isinstance(r, SymBool) else (not r)

    def __getattr__(self, name):
        if name.startswith("__") or name == "_s":
            raise AttributeError(name)
        return getattr(self._s, name)


def is_sym(x):
    return isinstance(x, (SymInt, SymBool, SymStr)) or (isinstance(x, StrBase) and isinstance(x._s, SymStr))
