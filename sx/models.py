"""Environment models: the C-level functions the library calls (re, str methods, int, str, format, ...)."""
import builtins
import re
import re._constants as sre_c
import re._parser as sre_parse

import z3

from sx.core import Unmodelled, ctx
from sx.terms import (
    NOTFOUND,
    category_ranges,
    in_ranges,
    ival,
    map_leaves,
    prune_ite,
    ranges,
    seg_lookup,
    segments,
    upper_tables,
)
from sx.values import Dec, Opt, StrBase, SymBool, SymInt, SymStr, is_sym, mkbool, mkint, mkstr, zb, zc, zi

# ---------------------------------------------------------------- regex
_CATS = {
    sre_c.CATEGORY_DIGIT: r"\d",
    sre_c.CATEGORY_SPACE: r"\s",
    sre_c.CATEGORY_WORD: r"\w",
    sre_c.CATEGORY_NOT_DIGIT: r"\D",
    sre_c.CATEGORY_NOT_SPACE: r"\S",
    sre_c.CATEGORY_NOT_WORD: r"\W",
}


_ICASE_CACHE = {}


def _icase_ranges(items, flags):
    """code points a character class matches under re.IGNORECASE: asked of the real `re` engine, one code point at a
    time (its case-folding tables are not re-implemented), cached per class text and flags"""
    parts = []
    for op, av in items:
        if op is sre_c.NEGATE:
            parts.append("^")
        elif op is sre_c.LITERAL:
            parts.append(re.escape(chr(av)))
        elif op is sre_c.RANGE:
            parts.append(re.escape(chr(av[0])) + "-" + re.escape(chr(av[1])))
        elif op is sre_c.CATEGORY:
            parts.append(_CATS[av])
        else:
            raise Unmodelled(f"regex class item {op}")
    key = ("[" + "".join(parts) + "]", flags & (re.IGNORECASE | re.ASCII))
    if key not in _ICASE_CACHE:
        rx = re.compile(key[0], key[1])
        _ICASE_CACHE[key] = ranges([c for c in range(0x110000) if rx.fullmatch(chr(c))])
    return _ICASE_CACHE[key]


def char_pred(x, items, flags):
    if flags & re.IGNORECASE:
        return z3.simplify(in_ranges(x, _icase_ranges(items, flags)))
    conds, negate = [], False
    cflags = flags & re.ASCII
    for op, av in items:
        if op is sre_c.NEGATE:
            negate = not negate
        elif op is sre_c.LITERAL:
            conds.append(in_ranges(x, [[av, av]]))
        elif op is sre_c.RANGE:
            conds.append(in_ranges(x, [[av[0], av[1]]]))
        elif op is sre_c.CATEGORY:
            conds.append(in_ranges(x, category_ranges(_CATS[av], cflags)))
        else:
            raise Unmodelled(f"regex class item {op}")
    c = z3.Or(conds) if conds else z3.BoolVal(False)
    return z3.simplify(z3.Not(c) if negate else c)


def rx_match(nodes, s, i, flags):
    """dict end_pos -> cond for matching node list starting at i (all possible ends; existence semantics)"""
    cur = {i: z3.BoolVal(True)}
    for op, av in nodes:
        nxt = {}

        def put(j, c):
            nxt[j] = z3.Or(nxt[j], c) if j in nxt else c

        for j, c in cur.items():
            if op is sre_c.LITERAL:
                if j < len(s):
                    lit = _icase_ranges([(sre_c.LITERAL, av)], flags) if flags & re.IGNORECASE else [[av, av]]
                    put(j + 1, z3.And(c, in_ranges(zc(s[j]), lit)))
            elif op is sre_c.NOT_LITERAL:
                if j < len(s):
                    lit = _icase_ranges([(sre_c.LITERAL, av)], flags) if flags & re.IGNORECASE else [[av, av]]
                    put(j + 1, z3.And(c, z3.Not(in_ranges(zc(s[j]), lit))))
            elif op is sre_c.IN:
                if j < len(s):
                    put(j + 1, z3.And(c, char_pred(zc(s[j]), av, flags)))
            elif op is sre_c.ANY:
                if j < len(s):
                    if flags & re.DOTALL:
                        put(j + 1, c)
                    else:
                        put(j + 1, z3.And(c, zc(s[j]) != 10))
            elif op is sre_c.AT:
                if av is sre_c.AT_BEGINNING or av is sre_c.AT_BEGINNING_STRING:
                    if j == 0:
                        put(j, c)
                elif av is sre_c.AT_END:
                    if j == len(s):
                        put(j, c)
                    elif j == len(s) - 1:
                        put(j, z3.And(c, zc(s[j]) == 10))
                elif av is sre_c.AT_END_STRING:
                    if j == len(s):
                        put(j, c)
                else:
                    raise Unmodelled(f"regex AT {av}")
            elif op in (sre_c.MAX_REPEAT, sre_c.MIN_REPEAT, getattr(sre_c, "POSSESSIVE_REPEAT", None)):
                if op is getattr(sre_c, "POSSESSIVE_REPEAT", None):
                    raise Unmodelled("possessive repeat")
                lo, hi, sub = av
                k, frontier = 0, {j: c}
                if lo == 0:
                    put(j, c)
                while frontier and (hi is sre_c.MAXREPEAT or k < hi):
                    nf = {}
                    for a, ca in frontier.items():
                        for b, cb in rx_match(list(sub), s, a, flags).items():
                            if b == a:
                                continue
                            cc = z3.And(ca, cb)
                            nf[b] = z3.Or(nf[b], cc) if b in nf else cc
                    k += 1
                    frontier = nf
                    if k >= lo:
                        for b, cb in frontier.items():
                            put(b, cb)
            elif op is sre_c.SUBPATTERN:
                group, add_flags, del_flags, p = av
                if add_flags or del_flags:
                    raise Unmodelled("inline regex flags")
                for b, cb in rx_match(list(p), s, j, flags).items():
                    put(b, z3.And(c, cb))
            elif op is sre_c.BRANCH:
                for alt in av[1]:
                    for b, cb in rx_match(list(alt), s, j, flags).items():
                        put(b, z3.And(c, cb))
            else:
                raise Unmodelled(f"regex op {op}")
        cur = nxt
        if not cur:
            break
    return cur


_parse_cache = {}


def _parse(pattern, flags):
    k = (pattern, flags)
    if k not in _parse_cache:
        _parse_cache[k] = list(sre_parse.parse(pattern, flags))
    return _parse_cache[k]


class SymMatch:
    """truthy result of a successful match on a symbolic subject; group access is not modelled"""

    def __getattr__(self, name):
        raise Unmodelled(f"Match.{name} on symbolic subject")


def model_re_match(pattern, flags, s, full=False):
    s = SymStr.of(s).norm()
    if not s.dense():
        s = s.fix_widths()
    if isinstance(pattern, bytes):
        raise Unmodelled("bytes pattern")
    if flags & ~(re.UNICODE | re.ASCII | re.DOTALL | re.IGNORECASE):
        raise Unmodelled(f"regex flags {flags}")
    ends = rx_match(_parse(pattern, flags), s.p, 0, flags)
    if full:
        ends = {j: c for j, c in ends.items() if j == len(s.p)}
    r = mkbool(z3.Or(list(ends.values())) if ends else z3.BoolVal(False))
    # a match object is only ever used for its truth value on symbolic subjects
    if isinstance(r, bool):
        return SymMatch() if r else None
    return SymMatch() if ctx.choose(r.e) else None


def regex_can_match_length(pattern, flags, n, full=True):
    """z3 condition over n fresh unconstrained chars that the pattern matches (used by C17)"""
    cs = [z3.Int(f"__rx{i}") for i in range(n)]
    ends = rx_match(list(sre_parse.parse(pattern, flags)), cs, 0, flags)
    if full:
        ends = {j: c for j, c in ends.items() if j == n}
    dom = [z3.And(c >= 0, c <= 0x10FFFF) for c in cs]
    return cs, z3.And(dom + [z3.Or(list(ends.values())) if ends else z3.BoolVal(False)])


def model_re_sub_delete(pat, s):
    """Pattern.sub("", s) for a pattern of the shape (single class)+ : delete every matching character"""
    nodes = list(sre_parse.parse(pat.pattern, pat.flags))
    ok = (
        len(nodes) == 1
        and nodes[0][0] is sre_c.MAX_REPEAT
        and nodes[0][1][0] == 1
        and nodes[0][1][1] is sre_c.MAXREPEAT
        and len(nodes[0][1][2]) == 1
        and nodes[0][1][2][0][0] is sre_c.IN
    )
    if not ok:
        raise Unmodelled(f"Pattern.sub shape {pat.pattern!r}")
    items = nodes[0][1][2][0][1]
    s = SymStr.of(s)
    out = []
    for q in s.p:
        if isinstance(q, Opt):
            # the optional slot holds an arbitrary member of cls_ranges; it vanishes iff that whole class is deleted
            if all(pat.fullmatch(chr(c)) for lo, hi in q.cls_ranges for c in range(lo, hi + 1)):
                continue
            if ctx.choose(q.present) and not ctx.choose(char_pred(q.ch, items, pat.flags)):
                out.append(q.ch)  # a present slot character the pattern does not delete stays in the text
            continue
        if isinstance(q, Dec):
            out.append(q)  # decimal digits are never whitespace; checked for the classes we accept:
            if ctx.check(char_pred(z3.IntVal(48), items, pat.flags)):
                raise Unmodelled("Pattern.sub deleting digits from a decimal piece")
            continue
        if isinstance(q, int):
            if not pat.fullmatch(chr(q)):
                out.append(q)
            continue
        if ctx.choose(char_pred(q, items, pat.flags)):
            continue
        out.append(q)
    return mkstr(out)


def model_translate(s, table):
    """str.translate with a table that only deletes (every value None, as str.maketrans("", "", chars) builds):
    a character is dropped iff its code point is a key of the table"""
    if not isinstance(table, dict) or any(v is not None for v in table.values()) or not all(isinstance(k, int) for k in table):
        raise Unmodelled("str.translate with a table that maps (only deletion tables are modelled)")
    dele = ranges(table.keys())
    s = SymStr.of(s)
    out = []
    for q in s.p:
        if isinstance(q, Opt):
            if all(c in table for lo, hi in q.cls_ranges for c in range(lo, hi + 1)):
                continue
            if ctx.choose(q.present) and not ctx.choose(in_ranges(q.ch, dele)):
                out.append(q.ch)
            continue
        if isinstance(q, Dec):
            if any(c in table for c in range(48, 58)):
                raise Unmodelled("str.translate deleting digits from a decimal piece")
            out.append(q)
            continue
        if isinstance(q, int):
            if q not in table:
                out.append(q)
            continue
        if ctx.choose(in_ranges(q, dele)):
            continue
        out.append(q)
    return mkstr(out)


# ---------------------------------------------------------------- str methods
def model_upper(s):
    s = SymStr.of(s)
    segs, multi_r, multi = upper_tables()
    out = []
    for q in s.p:
        if isinstance(q, int):
            out.extend(ord(c) for c in chr(q).upper())
            continue
        if isinstance(q, Dec):
            out.append(q)
            continue
        if isinstance(q, Opt):
            raise Unmodelled("upper on optional slot")
        if ctx.choose(in_ranges(q, multi_r)):
            # 1 -> n expansion: fork on the expansion length, then merged per-position tables
            ex = _expansion_tables()
            lens = sorted(ex)
            n = lens[ctx.choose_n([in_ranges(q, ex[k][0]) for k in lens])]
            for tab in ex[n][1]:
                out.append(seg_lookup(q, tab))
            continue
        out.append(seg_lookup(q, segs, default="self"))
    return mkstr(out)


_EXP = {}


def _expansion_tables():
    if not _EXP:
        _, _, multi = upper_tables()
        for n in sorted({len(u) for u in multi.values()}):
            cps = [c for c, u in multi.items() if len(u) == n]
            _EXP[n] = (_ranges_of(cps), [segments({c: ord(multi[c][k]) for c in cps}) for k in range(n)])
    return _EXP


def _ranges_of(codes):
    from sx.terms import ranges

    return ranges(codes)


def model_zfill(s, w):
    if isinstance(w, SymInt):
        raise Unmodelled("zfill symbolic width")
    s = SymStr.of(s)
    if not s.dense() or any(isinstance(q, Opt) for q in s.p):
        s = s._dense()
    n = len(s.p)
    if n >= w:
        return mkstr(s.p)
    first = s.p[0] if n else None
    if first is not None:
        if isinstance(first, int):
            sign = first in (43, 45)
        else:
            sign = ctx.choose(in_ranges(first, [[43, 43], [45, 45]]))
        if sign:
            return mkstr([first] + [48] * (w - n) + s.p[1:])
    return mkstr([48] * (w - n) + s.p)


def strip_model(s, chars, right):
    s = SymStr.of(s)._dense()
    if chars is None:
        rs = category_ranges(r"\s")  # str.strip() whitespace == str.isspace; identical to \s (checked in selftest)
    else:
        cs = SymStr.of(chars).concrete()
        if cs is None:
            raise Unmodelled("strip with symbolic chars")
        rs = [[ord(c), ord(c)] for c in cs]
    p = list(s.p)
    while p:
        q = p[-1] if right else p[0]
        if isinstance(q, int):
            isin = any(lo <= q <= hi for lo, hi in rs)
        else:
            isin = ctx.choose(in_ranges(q, rs))
        if isin:
            p = p[:-1] if right else p[1:]
        else:
            break
    return mkstr(p)


_PRED_TABLES = {}


def _pred_ranges(name):
    """code points c with getattr(chr(c), name)() true - scanned from the real str methods"""
    if name not in _PRED_TABLES:
        f = getattr(str, name)
        _PRED_TABLES[name] = _ranges_of([c for c in range(0x110000) if f(chr(c))])
    return _PRED_TABLES[name]


def _blocks_ranges(kind):
    """code points that make a string not islower() / not isupper() (cased characters of the other case)"""
    key = "blocks_" + kind
    if key not in _PRED_TABLES:
        probe = "a" if kind == "islower" else "A"
        f = getattr(str, kind)
        _PRED_TABLES[key] = _ranges_of([c for c in range(0x110000) if not f(chr(c) + probe)])
    return _PRED_TABLES[key]


def model_str_pred(s, name):
    """str.isalnum / isdigit / ... / islower / isupper on a symbolic string (dense or with optional slots)"""
    s = SymStr.of(s)
    if any(isinstance(q, Dec) for q in s.p):
        s = s._dense()
    items = []  # (present cond | True, char term | int)
    for q in s.p:
        if isinstance(q, Opt):
            items.append((q.present, q.ch))
        else:
            items.append((True, q))

    def holds(q, rs):
        return z3.BoolVal(any(lo <= q <= hi for lo, hi in rs)) if isinstance(q, int) else in_ranges(q, rs)

    def guard(p, c):
        return c if p is True else z3.Implies(p, c)

    def some(conds):
        return z3.Or(conds) if conds else z3.BoolVal(False)

    if name in ("islower", "isupper"):
        cased = _pred_ranges(name)
        blocks = _blocks_ranges(name)
        ok = [guard(p, z3.Not(holds(q, blocks))) for p, q in items]
        has = [holds(q, cased) if p is True else z3.And(p, holds(q, cased)) for p, q in items]
        return mkbool(z3.And(ok + [some(has)]))
    rs = _pred_ranges(name)
    allc = [guard(p, holds(q, rs)) for p, q in items]
    if name in ("isascii",):
        return mkbool(z3.And(allc)) if allc else True
    nonempty = some([z3.BoolVal(True) if p is True else p for p, q in items])
    return mkbool(z3.And(allc + [nonempty]))


_INDEX_SEGS = {}


def _stable_pruned(q, segs):
    """pruned table value of character q, computed once per path: a later call (under a stronger path condition)
    reuses the first term, so equal characters give syntactically equal values (and equal memoised prefix integers)"""
    k = ("pruned", q.get_id(), id(segs))
    hit = ctx.path_cache.get(k)
    if hit is not None and hit[1].eq(q):
        return hit[0]
    e = prune_ite(seg_lookup(q, segs))
    ctx.path_cache[k] = (e, q)
    return e


def model_index(hay, needle):
    """concrete_str.index(symbolic single char)"""
    n = SymStr.of(needle)._dense()
    if len(n.p) != 1:
        if len(n.p) == 0:
            return 0
        raise Unmodelled("str.index with multi-char symbolic needle")
    q = n.p[0]
    if isinstance(q, int):
        return hay.index(chr(q))
    segs = _INDEX_SEGS.get(hay)
    if segs is None:
        table = {}
        for i, c in enumerate(hay):
            table.setdefault(ord(c), i)
        segs = _INDEX_SEGS[hay] = segments(table)
    found = in_ranges(q, [[lo, hi] for lo, hi, d in segs])
    if not ctx.choose(found):
        raise ValueError("substring not found")
    return mkint(_stable_pruned(q, segs))


def model_join(sep, it):
    parts = list(it)
    if isinstance(sep, StrBase):
        sep = sep._s
    for p in parts:
        if not isinstance(p, (str, SymStr, StrBase)):
            raise TypeError(f"sequence item: expected str instance, {type(p).__name__} found")
    if not any(is_sym(p) for p in parts) and not is_sym(sep):
        return sep.join(p._s if isinstance(p, StrBase) else p for p in parts)
    out = []
    sp = SymStr.of(sep).p
    for i, p in enumerate(parts):
        if i and sp:
            out.extend(sp)
        out.extend(SymStr.of(p).p)
    return mkstr(out)


# ---------------------------------------------------------------- int / str / format
def digit_value_table():
    """code point -> int(chr(cp)) for every code point int() accepts as a single digit"""
    if not hasattr(digit_value_table, "t"):
        t = {}
        for lo, hi in category_ranges(r"\d"):
            for c in range(lo, hi + 1):
                try:
                    t[c] = builtins.int(chr(c))
                except ValueError:
                    pass
        digit_value_table.t = t
        digit_value_table.segs = segments({c: v for c, v in t.items()})
        digit_value_table.ranges = _ranges_of(list(t))
    return digit_value_table


def model_int(x=0, *a, **k):
    if a or k:
        if is_sym(x) or any(is_sym(y) for y in a):
            base = a[0] if a else k.get("base")
            if isinstance(base, int) and not isinstance(base, bool) and len(a) + len(k) == 1:
                return model_int_base(x, base)
            raise Unmodelled("int() with symbolic base")
        return builtins.int(x, *a, **k)
    if isinstance(x, SymInt):
        return x
    if isinstance(x, SymBool):
        return mkint(zi(x))
    if isinstance(x, StrBase):
        x = x._s
    if not isinstance(x, SymStr):
        return builtins.int(x)
    s = x
    dt = digit_value_table()
    items = []  # (value term, width term, wlo, whi)
    n_pieces = len(s.p)
    for q in s.p:
        if isinstance(q, Opt):
            raise Unmodelled("int() of optional slot")
        if isinstance(q, Dec):
            items.append((q.v, q.width(), q.wlo, q.whi))
            continue
        if isinstance(q, int):
            if q in dt.t:
                items.append((z3.IntVal(dt.t[q]), z3.IntVal(1), 1, 1))
                continue
            if n_pieces == 1:
                raise ValueError("invalid literal for int() with base 10")
            raise Unmodelled("int() of string with sign/space/underscore characters")
        if not ctx.choose(in_ranges(q, dt.ranges)):
            if n_pieces == 1:
                raise ValueError("invalid literal for int() with base 10")
            # in a longer string a non-digit may still be legal (sign, whitespace, underscore)
            if ctx.choose(in_ranges(q, category_ranges(r"\s") + [[43, 43], [45, 45], [95, 95]])):
                raise Unmodelled("int() of string with sign/space/underscore characters")
            raise ValueError("invalid literal for int() with base 10")
        # any decimal digit of Unicode: one merged value term (no fork between ASCII and other digits)
        items.append((z3.simplify(_stable_pruned(q, dt.segs)), z3.IntVal(1), 1, 1))
    if not items:
        raise ValueError("invalid literal for int() with base 10: ''")
    # split at the maximal fixed-width suffix; memoise the (symbolic-width) prefix term
    kk = len(items)
    while kk > 0 and items[kk - 1][2] == items[kk - 1][3]:
        kk -= 1
    fixed, fw = z3.IntVal(0), 0
    for v, w, wl, wh in reversed(items[kk:]):
        fixed = fixed + v * (10**fw)
        fw += wl
    prov = _digit_provenance(s)
    if kk == 0:
        r = mkint(fixed)
        if isinstance(r, SymInt) and prov is not None:
            r.src = prov
        return r
    key = tuple((v.get_id(), wl, wh) for v, w, wl, wh in items[:kk])
    hit = ctx.int_memo.get(key)
    if hit is None:
        total, S, lo, hi = [], z3.IntVal(0), 0, 0
        for v, w, wl, wh in reversed(items[:kk]):
            if lo == hi:
                term = v * (10**lo)
            else:
                Ss = z3.simplify(S)
                term = v * (10**hi)
                for j in range(hi - 1, lo - 1, -1):
                    term = z3.If(Ss == j, v * (10**j), term)
            total.append(term)
            S = S + w
            lo += wl
            hi += wh
        T = z3.simplify(z3.Sum(total))
        tv = z3.Int(f"__T{len(ctx.int_memo)}")
        ctx.define(tv, T)
        hit = (tv, T, [v for v, _, _, _ in items[:kk]])
        ctx.int_memo[key] = hit
    r = mkint(hit[0] * (10**fw) + fixed)
    if isinstance(r, SymInt) and prov is not None:
        r.src = prov
    return r


def _digit_provenance(s):
    """pieces of a parsed digit string usable to print the number again: single decimal-digit characters and
    unpadded decimal pieces (as produced by str(int)); None if anything else occurs"""
    out = []
    for q in s.p:
        if isinstance(q, Opt):
            return None
        if isinstance(q, Dec):
            b = ival(q.v)
            if b is None or b[0] < 0 or q.wlo != len(builtins.str(b[0])) or q.whi != len(builtins.str(b[1])):
                return None  # zero-padded piece: its own leading zeros would need digit extraction
            out.append(q)
        elif isinstance(q, int):
            if not (48 <= q <= 57):
                return None
            out.append(q)
        else:
            b = ival(q)
            if b is None or b[0] < 48 or b[1] > 57:
                return None
            out.append(q)
    return tuple(out)


_BASE_TABLES = {}


def model_int_base(x, base):
    """int(single symbolic character, base): table scanned from the real int() over all code points"""
    if isinstance(x, StrBase):
        x = x._s
    s = SymStr.of(x)._dense()
    if len(s.p) != 1:
        raise Unmodelled("int(str, base) on a symbolic string longer than one character")
    q = s.p[0]
    if base not in _BASE_TABLES:
        t = {}
        for c in range(0x110000):
            try:
                t[c] = builtins.int(chr(c), base)
            except ValueError:
                pass
        _BASE_TABLES[base] = (segments(t), _ranges_of(list(t)))
    segs, rs = _BASE_TABLES[base]
    if isinstance(q, int):
        return builtins.int(chr(q), base)
    if not ctx.choose(in_ranges(q, rs)):
        raise ValueError("invalid literal for int() with base")
    return mkint(prune_ite(seg_lookup(q, segs)))


def _shift_segs(segs):
    return segs


def model_str(x="", *a):
    if a:
        raise Unmodelled("str() with encoding")
    if isinstance(x, StrBase):
        return x.__str__() if type(x).__str__ is not StrBase.__str__ else x._s
    if isinstance(x, SymStr):
        return x
    if isinstance(x, SymBool):
        raise Unmodelled("str(SymBool)")
    if isinstance(x, SymInt):
        if x.src is not None:
            return _str_from_provenance(x)
        return SymStr([dec_of(x.e)])
    return builtins.str(x)


def _str_from_provenance(x):
    """str(int(digits)): the digit string without its leading zeros (one fork per possible leading zero piece)"""
    pieces = list(x.src)
    i = 0
    while i < len(pieces) - 1:
        q = pieces[i]
        if isinstance(q, int):
            zero = q == 48
        elif isinstance(q, Dec):
            zero = ctx.choose(q.v == 0)
        else:
            zero = ctx.choose(q == 48)
        if not zero:
            break
        i += 1
    return mkstr(pieces[i:])


def dec_of(e):
    b = ival(e)
    if b is not None and b[0] >= 0:
        return Dec(e, len(builtins.str(b[0])), len(builtins.str(b[1])))
    if not ctx.must(e >= 0):
        raise Unmodelled("str() of a possibly negative symbolic integer")
    wlo = 1
    while wlo < 40 and ctx.must(e >= 10**wlo):
        wlo += 1
    whi = wlo
    while not ctx.must(e < 10**whi):
        whi += 1
        if whi > 60:
            raise Unmodelled("str() of unbounded symbolic integer")
    return Dec(e, wlo, whi)


def model_format_int(v, spec):
    if isinstance(spec, (SymStr, SymInt)):
        raise Unmodelled("symbolic format spec")
    m = re.fullmatch(r"(0?)(\d*)d?", spec)
    if not m:
        raise Unmodelled(f"format spec {spec!r}")
    zero, width = m.group(1), builtins.int(m.group(2) or 0)
    if not isinstance(v, SymInt):
        return format(v, spec)
    if width and not zero:
        raise Unmodelled("space padded format of symbolic int")
    d = dec_of(v.e)
    return SymStr([Dec(d.v, max(d.wlo, width), max(d.whi, width))])


def model_sum(it, start=0):
    acc = start
    for x in it:
        acc = acc + x
    return acc


def model_all(it):
    acc = True
    for x in it:
        if isinstance(x, SymBool):
            if not x:
                return False
        elif not x:
            return False
    return acc


def model_any(it):
    for x in it:
        if x:
            return True
    return False


def model_isinstance(x, t):
    ts = t if isinstance(t, tuple) else (t,)
    if isinstance(x, (SymStr, StrBase)) and builtins.str in ts:
        return True
    if isinstance(x, SymInt) and builtins.int in ts:
        return True
    if isinstance(x, SymBool) and (builtins.bool in ts or builtins.int in ts):
        return True
    return builtins.isinstance(x, t)
