"""AST instrumentation of the real schwifty sources + import hook.

The library under /repo (or $SX_ROOT) is re-read on every run, rewritten by `T` and imported under its
real package name.  Nothing is cached on disk (no __pycache__), so every run sees the current tree.

Rewrites (everything else is native Python):
  f(...)            -> __sx__.call(f, ...)        (except zero-arg super())
  f"..."            -> __sx__.fstring([...])
  a[k] (load)       -> __sx__.getitem(a, k)
  x in y / is / not -> __sx__.contains / is_ / not_
  class C(str)      -> class C(__sx__.StrBase)    (not for Enums)
  for x in it       -> for x in __sx__.iter_(it)  (also comprehensions)
  def f(...):       -> first statement __sx__.enter("module.qualname")
  monitor mode: attribute / subscript stores and deletes -> __sx__.setattr_/setitem_/delattr_/delitem_
"""
import ast
import importlib.machinery
import importlib.util
import os
import sys

RT = "__sx__"


def _rt(attr):
    return ast.Attribute(value=ast.Name(id=RT, ctx=ast.Load()), attr=attr, ctx=ast.Load())


class T(ast.NodeTransformer):
    def __init__(self, modname, monitor=True):
        self.modname = modname
        self.monitor = monitor
        self.qual = []

    # ---- calls
    def visit_Call(self, node):
        self.generic_visit(node)
        if isinstance(node.func, ast.Name) and node.func.id == "super":
            return node
        new = ast.Call(func=_rt("call"), args=[node.func] + node.args, keywords=node.keywords)
        return ast.copy_location(new, node)

    def visit_JoinedStr(self, node):
        self.generic_visit(node)
        parts = []
        for v in node.values:
            if isinstance(v, ast.Constant):
                parts.append(v)
            else:
                spec = v.format_spec if v.format_spec is not None else ast.Constant(value="")
                parts.append(ast.Tuple(elts=[v.value, ast.Constant(value=v.conversion), spec], ctx=ast.Load()))
        new = ast.Call(func=_rt("fstring"), args=[ast.List(elts=parts, ctx=ast.Load())], keywords=[])
        return ast.copy_location(new, node)

    def visit_Compare(self, node):
        self.generic_visit(node)
        if len(node.ops) == 1 and isinstance(node.ops[0], (ast.In, ast.NotIn, ast.Is, ast.IsNot)):
            name = {ast.In: "contains", ast.NotIn: "not_contains", ast.Is: "is_", ast.IsNot: "is_not"}[
                type(node.ops[0])
            ]
            a, b = node.left, node.comparators[0]
            args = [b, a] if name in ("contains", "not_contains") else [a, b]
            return ast.copy_location(ast.Call(func=_rt(name), args=args, keywords=[]), node)
        return node

    def visit_Subscript(self, node):
        self.generic_visit(node)
        if isinstance(node.ctx, ast.Load):
            return ast.copy_location(
                ast.Call(func=_rt("getitem"), args=[node.value, self._key(node.slice)], keywords=[]), node
            )
        return node

    @staticmethod
    def _key(key):
        if isinstance(key, ast.Slice):
            none = ast.Constant(value=None)
            return ast.Call(
                func=ast.Name(id="slice", ctx=ast.Load()),
                args=[key.lower or none, key.upper or none, key.step or none],
                keywords=[],
            )
        return key

    def visit_UnaryOp(self, node):
        self.generic_visit(node)
        if isinstance(node.op, ast.Not):
            return ast.copy_location(ast.Call(func=_rt("not_"), args=[node.operand], keywords=[]), node)
        return node

    # ---- loads of self.<attr> (switch points for the C14 scheduler; reads of shared scratch state)
    def visit_Attribute(self, node):
        self.generic_visit(node)
        if isinstance(node.ctx, ast.Load) and isinstance(node.value, ast.Name) and node.value.id == "self" and self.qual:
            return ast.copy_location(
                ast.Call(func=_rt("getattr_"), args=[node.value, ast.Constant(value=node.attr)], keywords=[]), node
            )
        return node

    # ---- iteration (set order is a fork point; everything else passes through)
    def visit_For(self, node):
        self.generic_visit(node)
        node.iter = ast.copy_location(ast.Call(func=_rt("iter_"), args=[node.iter], keywords=[]), node.iter)
        return node

    def visit_comprehension(self, node):
        self.generic_visit(node)
        node.iter = ast.copy_location(ast.Call(func=_rt("iter_"), args=[node.iter], keywords=[]), node.iter)
        return node

    # ---- stores (write monitor)
    def visit_Assign(self, node):
        self.generic_visit(node)
        if not self.monitor or self.qual == [] or len(node.targets) != 1:
            return node
        return self._store(node, node.targets[0], node.value) or node

    def visit_AugAssign(self, node):
        self.generic_visit(node)
        if not self.monitor or self.qual == []:
            return node
        tgt = node.target
        if isinstance(tgt, ast.Attribute):
            load = ast.Attribute(value=tgt.value, attr=tgt.attr, ctx=ast.Load())
        elif isinstance(tgt, ast.Subscript):
            load = ast.Call(func=_rt("getitem"), args=[tgt.value, self._key(tgt.slice)], keywords=[])
        else:
            return node
        val = ast.BinOp(left=load, op=node.op, right=node.value)
        return self._store(node, tgt, val) or node

    def _store(self, node, tgt, value):
        if isinstance(tgt, ast.Attribute):
            new = ast.Expr(
                value=ast.Call(func=_rt("setattr_"), args=[tgt.value, ast.Constant(value=tgt.attr), value], keywords=[])
            )
            return ast.copy_location(new, node)
        if isinstance(tgt, ast.Subscript):
            new = ast.Expr(
                value=ast.Call(func=_rt("setitem_"), args=[tgt.value, self._key(tgt.slice), value], keywords=[])
            )
            return ast.copy_location(new, node)
        return None

    def visit_Delete(self, node):
        self.generic_visit(node)
        if not self.monitor or self.qual == []:
            return node
        out = []
        for tgt in node.targets:
            if isinstance(tgt, ast.Attribute):
                out.append(
                    ast.copy_location(
                        ast.Expr(
                            value=ast.Call(
                                func=_rt("delattr_"), args=[tgt.value, ast.Constant(value=tgt.attr)], keywords=[]
                            )
                        ),
                        node,
                    )
                )
            elif isinstance(tgt, ast.Subscript):
                out.append(
                    ast.copy_location(
                        ast.Expr(
                            value=ast.Call(func=_rt("delitem_"), args=[tgt.value, self._key(tgt.slice)], keywords=[])
                        ),
                        node,
                    )
                )
            else:
                out.append(ast.copy_location(ast.Delete(targets=[tgt]), node))
        return out

    # ---- classes / functions
    def visit_ClassDef(self, node):
        self.qual.append(node.name)
        self.generic_visit(node)
        self.qual.pop()
        names = [b.id for b in node.bases if isinstance(b, ast.Name)]
        is_enum = any(
            (isinstance(b, ast.Attribute) and b.attr == "Enum") or (isinstance(b, ast.Name) and b.id == "Enum")
            for b in node.bases
        )
        if "str" in names and not is_enum:
            node.bases = [_rt("StrBase") if isinstance(b, ast.Name) and b.id == "str" else b for b in node.bases]
        return node

    def visit_AnnAssign(self, node):
        # annotations are left alone
        if node.value is not None:
            node.value = self.visit(node.value)
        return node

    def visit_arguments(self, node):
        node.defaults = [self.visit(d) for d in node.defaults]
        node.kw_defaults = [self.visit(d) if d is not None else None for d in node.kw_defaults]
        return node

    def visit_FunctionDef(self, node):
        self.qual.append(node.name)
        node.args = self.visit(node.args)
        body = []
        for s in node.body:
            r = self.visit(s)
            if isinstance(r, list):
                body.extend(r)
            elif r is not None:
                body.append(r)
        qn = self.modname + "." + ".".join(q for q in self.qual)
        self.qual.pop()
        enter = ast.Expr(value=ast.Call(func=_rt("enter"), args=[ast.Constant(value=qn)], keywords=[]))
        i = 0
        if body and isinstance(body[0], ast.Expr) and isinstance(getattr(body[0], "value", None), ast.Constant):
            i = 1  # keep docstring first
        body.insert(i, enter)
        node.body = body
        node.decorator_list = [self.visit(d) for d in node.decorator_list]
        return node

    visit_AsyncFunctionDef = visit_FunctionDef


def transform_source(src, path, modname, monitor=True):
    tree = ast.parse(src, path)
    tree = T(modname, monitor).visit(tree)
    imp = ast.parse(f"import sx.rt as {RT}").body[0]
    i = 0
    while i < len(tree.body) and (
        (isinstance(tree.body[i], ast.ImportFrom) and tree.body[i].module == "__future__")
        or (isinstance(tree.body[i], ast.Expr) and isinstance(getattr(tree.body[i], "value", None), ast.Constant))
    ):
        i += 1
    tree.body.insert(i, imp)
    ast.fix_missing_locations(tree)
    return tree


class Loader(importlib.machinery.SourceFileLoader):
    monitor = True

    def get_code(self, fullname):
        path = self.get_filename(fullname)
        with open(path, "rb") as f:
            src = f.read()
        tree = transform_source(src, path, fullname, self.monitor)
        SOURCES[fullname] = path
        return compile(tree, path, "exec", dont_inherit=True)


SOURCES = {}


class Finder:
    def __init__(self, root, pkg):
        self.root, self.pkg = root, pkg

    def find_spec(self, name, path=None, target=None):
        if name != self.pkg and not name.startswith(self.pkg + "."):
            return None
        base = os.path.join(self.root, *name.split("."))
        if os.path.isdir(base):
            f = os.path.join(base, "__init__.py")
            return importlib.util.spec_from_file_location(
                name, f, loader=Loader(name, f), submodule_search_locations=[base]
            )
        f = base + ".py"
        if os.path.exists(f):
            return importlib.util.spec_from_file_location(name, f, loader=Loader(name, f))
        return None


def repo_root():
    return os.environ.get("SX_ROOT", "/repo")


def install(root=None, pkg="schwifty"):
    root = root or repo_root()
    for f in sys.meta_path:
        if isinstance(f, Finder):
            return
    sys.meta_path.insert(0, Finder(root, pkg))
