"""Term utilities: range sets, affine segment tables, sound intervals, If-tree distribution, char partitions."""
import re

import z3

from sx.core import ctx

MAXCP = 0x10FFFF

VAR_BOUNDS = {}  # z3 const id -> (lo, hi)
VAR_DOMAIN = {}  # z3 const id -> (domain_key, list of [lo, hi])
_KEEP = []  # keep z3 consts alive so ids stay unique


# ---------------------------------------------------------------- range sets
def segments(mapping):
    """dict code->int  ->  [[lo, hi, delta]] with value = code + delta"""
    segs = []
    for c in sorted(mapping):
        d = mapping[c] - c
        if segs and segs[-1][1] == c - 1 and segs[-1][2] == d:
            segs[-1][1] = c
        else:
            segs.append([c, c, d])
    return segs


def ranges(codes):
    out = []
    for c in sorted(codes):
        if out and out[-1][1] == c - 1:
            out[-1][1] = c
        else:
            out.append([c, c])
    return out


def complement(rs, lo=0, hi=MAXCP):
    out, cur = [], lo
    for a, b in sorted(rs):
        if a > cur:
            out.append([cur, a - 1])
        cur = max(cur, b + 1)
    if cur <= hi:
        out.append([cur, hi])
    return out


def merge_ranges(rs):
    out = []
    for a, b in sorted(rs):
        if out and a <= out[-1][1] + 1:
            out[-1][1] = max(out[-1][1], b)
        else:
            out.append([a, b])
    return out


def intersect_ranges(a, b):
    out = []
    for lo, hi in a:
        for lo2, hi2 in b:
            l, h = max(lo, lo2), min(hi, hi2)
            if l <= h:
                out.append([l, h])
    return merge_ranges(out)


def count_ranges(rs):
    return sum(b - a + 1 for a, b in rs)


def ranges_cond(x, rs):
    if not rs:
        return z3.BoolVal(False)
    return z3.Or([z3.And(x >= lo, x <= hi) if lo != hi else x == lo for lo, hi in rs])


# ---------------------------------------------------------------- tables from the real C implementations
_cat_cache = {}


def category_ranges(pat, flags=0):
    key = (pat, flags)
    if key not in _cat_cache:
        r = re.compile(pat, flags)
        _cat_cache[key] = ranges([c for c in range(MAXCP + 1) if r.fullmatch(chr(c))])
    return _cat_cache[key]


_upper = None


def upper_tables():
    """(segments of 1->1 changes, ranges of expanding code points, dict cp -> expansion string)"""
    global _upper
    if _upper is None:
        one, multi = {}, {}
        for c in range(MAXCP + 1):
            u = chr(c).upper()
            if len(u) == 1:
                if ord(u) != c:
                    one[c] = ord(u)
            else:
                multi[c] = u
        _upper = (segments(one), ranges(multi), multi)
    return _upper


_other_dom = {}


def stable_other_domain():
    """code points that are neither ASCII digit/upper nor whitespace nor changed by str.upper()"""
    if "stable" not in _other_dom:
        segs, multi_r, _ = upper_tables()
        bad = [[48, 57], [65, 90]] + category_ranges(r"\s") + multi_r + [[lo, hi] for lo, hi, d in segs]
        _other_dom["stable"] = complement(merge_ranges(bad))
    return _other_dom["stable"]


# ---------------------------------------------------------------- intervals / If-trees
def ival(e):
    """sound interval of a z3 int term using VAR_BOUNDS; None if unknown"""
    if z3.is_int_value(e):
        v = e.as_long()
        return (v, v)
    if not z3.is_app(e):
        return None
    k = e.decl().kind()
    if k == z3.Z3_OP_UNINTERPRETED and e.num_args() == 0:
        return VAR_BOUNDS.get(e.get_id())
    ch = e.children()
    if k == z3.Z3_OP_ADD:
        lo = hi = 0
        for c in ch:
            b = ival(c)
            if b is None:
                return None
            lo += b[0]
            hi += b[1]
        return (lo, hi)
    if k == z3.Z3_OP_SUB and len(ch) == 2:
        a, b = ival(ch[0]), ival(ch[1])
        if a is None or b is None:
            return None
        return (a[0] - b[1], a[1] - b[0])
    if k == z3.Z3_OP_UMINUS:
        a = ival(ch[0])
        return None if a is None else (-a[1], -a[0])
    if k == z3.Z3_OP_MUL and len(ch) == 2:
        a, b = ival(ch[0]), ival(ch[1])
        if a is None or b is None:
            return None
        ps = [a[0] * b[0], a[0] * b[1], a[1] * b[0], a[1] * b[1]]
        return (min(ps), max(ps))
    if k == z3.Z3_OP_ITE:
        a, b = ival(ch[1]), ival(ch[2])
        if a is None or b is None:
            return None
        return (min(a[0], b[0]), max(a[1], b[1]))
    if k == z3.Z3_OP_MOD and z3.is_int_value(ch[1]) and ch[1].as_long() > 0:
        m = ch[1].as_long()
        a = ival(ch[0])
        if a is not None and a[0] >= 0 and a[1] < m:
            return a
        return (0, m - 1)
    if k == z3.Z3_OP_IDIV and z3.is_int_value(ch[1]) and ch[1].as_long() > 0:
        m = ch[1].as_long()
        a = ival(ch[0])
        if a is None:
            return None
        return (a[0] // m, a[1] // m)
    return None


def map_leaves(q, f):
    """distribute f over the If-tree q"""
    if z3.is_app(q) and q.decl().kind() == z3.Z3_OP_ITE:
        c, a, b = q.children()
        return z3.If(c, map_leaves(a, f), map_leaves(b, f))
    return f(q)


def leaves(q):
    if z3.is_app(q) and q.decl().kind() == z3.Z3_OP_ITE:
        c, a, b = q.children()
        return leaves(a) + leaves(b)
    return [q]


_bis = {}


def overlaps(rs, lo, hi):
    """entries of the sorted, disjoint range table rs that intersect [lo, hi] (bisect)"""
    import bisect

    ent = _bis.get(id(rs))
    if ent is None or ent[0] is not rs:
        ent = (rs, [r[0] for r in rs], [r[1] for r in rs])
        _bis[id(rs)] = ent
    i = bisect.bisect_left(ent[2], lo)
    j = bisect.bisect_right(ent[1], hi)
    return rs[i:j]


_domf_cache = {}


def dom_filter(q, rs, rs_key=None):
    """restrict ranges/segments rs to those intersecting the domain of leaf q (a bare variable with a range-set domain)"""
    ent = VAR_DOMAIN.get(q.get_id()) if z3.is_const(q) else None
    if ent is None:
        return rs, False
    dkey, dom = ent
    ck = (dkey, rs_key if rs_key is not None else id(rs))
    hit = _domf_cache.get(ck)
    if hit is not None and hit[2] is rs:
        return hit[0], hit[1]
    out = []
    for r in rs:
        if any(not (r[1] < lo or r[0] > hi) for lo, hi in dom):
            out.append(r)
    inside = len(out) == 1 and all(out[0][0] <= lo and hi <= out[0][1] for lo, hi in dom)
    _domf_cache[ck] = (out, inside, rs)
    return out, inside


NOTFOUND = -(10**9)


_ll_cache = {}


def leaf_lookup(q, segs, default, dkey=None):
    k = (q.get_id(), id(segs), dkey)
    hit = _ll_cache.get(k)
    if hit is not None and hit[1] is segs and hit[2].eq(q) and dkey is not None:
        return hit[0]
    r = _leaf_lookup(q, segs)
    if r is None:
        e = default(q)
    elif isinstance(r, list):
        e = default(q)
        for lo, hi, d in reversed(r):
            e = z3.If(z3.And(q >= lo, q <= hi) if lo != hi else q == lo, q + d, e)
    else:
        e = r
    if len(_ll_cache) > 100000:
        _ll_cache.clear()
    _ll_cache[k] = (e, segs, q)
    return e


def _leaf_lookup(q, segs):
    """None (no hit possible) | z3 term (single affine hit) | list of candidate segments"""
    segs2, inside = dom_filter(q, segs)
    if not segs2:
        return None
    if inside:
        return q + segs2[0][2]
    b = ival(q)
    if b is None:
        b = (0, MAXCP)
    hits = [(lo, hi, d) for lo, hi, d in overlaps(segs2, b[0], b[1])]
    if not hits:
        return None
    if len(hits) == 1 and hits[0][0] <= b[0] and b[1] <= hits[0][1]:
        return q + hits[0][2]
    return hits


def seg_lookup(q, segs, default=None):
    """value of an affine-segment table at char term q; default None -> NOTFOUND, 'self' -> q itself"""
    if default is None:
        dflt, dkey = (lambda x: z3.IntVal(NOTFOUND)), "nf"  # noqa: E731
    elif isinstance(default, str) and default == "self":
        dflt, dkey = (lambda x: x), "self"  # noqa: E731
    else:
        dflt, dkey = (lambda x: default), None  # noqa: E731
    k = (q.get_id(), id(segs), dkey)
    hit = _sl_cache.get(k)
    if hit is not None and hit[1] is segs and hit[2].eq(q) and dkey is not None:
        return hit[0]
    e = z3.simplify(map_leaves(q, lambda leaf: leaf_lookup(leaf, segs, dflt, dkey)))
    if len(_sl_cache) > 100000:
        _sl_cache.clear()
    _sl_cache[k] = (e, segs, q)
    return e


_sl_cache = {}


_lir_cache = {}


def leaf_in_ranges(q, rs):
    k = (q.get_id(), id(rs))
    hit = _lir_cache.get(k)
    if hit is not None and hit[1] is rs and hit[2].eq(q):
        return hit[0]
    r = _leaf_in_ranges(q, rs)
    _lir_cache[k] = (r, rs, q)
    return r


def _leaf_in_ranges(q, rs):
    rs2, inside = dom_filter(q, rs)
    if not rs2:
        return z3.BoolVal(False)
    if inside:
        return z3.BoolVal(True)
    b = ival(q)
    if b is not None:
        hits = [(r[0], r[1]) for r in overlaps(rs2, b[0], b[1])]
        if not hits:
            return z3.BoolVal(False)
        if len(hits) == 1 and hits[0][0] <= b[0] and b[1] <= hits[0][1]:
            return z3.BoolVal(True)
        rs2 = hits
    return ranges_cond(q, rs2)


def in_ranges(x, rs):
    if isinstance(x, int):
        return z3.BoolVal(any(lo <= x <= hi for lo, hi in rs))
    return z3.simplify(map_leaves(x, lambda l: leaf_in_ranges(l, rs)))


def _is_guard(c):
    """condition built from Boolean constants only (partition guards), no arithmetic atoms"""
    if z3.is_const(c) and z3.is_bool(c):
        return True
    if z3.is_app(c) and c.decl().kind() in (z3.Z3_OP_NOT, z3.Z3_OP_AND, z3.Z3_OP_OR):
        return all(_is_guard(x) for x in c.children())
    return False


def prune_ite(e):
    """drop If branches whose *guard* (Boolean partition constants) is decided by the light path condition, and
    NOTFOUND leaves next to them; arithmetic conditions inside a class (segment chains) are left to the solver"""
    if z3.is_app(e) and e.decl().kind() == z3.Z3_OP_ITE:
        c, a, b = e.children()
        if not _is_guard(c):
            return e
        if not ctx.light_feasible(c):
            return prune_ite(b)
        if not ctx.light_feasible(z3.Not(c)):
            return prune_ite(a)
        a, b = prune_ite(a), prune_ite(b)
        if z3.is_int_value(b) and b.as_long() == NOTFOUND:
            return a
        if z3.is_int_value(a) and a.as_long() == NOTFOUND:
            return b
        return z3.If(c, a, b)
    return e


# ---------------------------------------------------------------- symbolic inputs
def fresh_int(name, lo, hi):
    v = z3.Int(name)
    _KEEP.append(v)
    VAR_BOUNDS[v.get_id()] = (lo, hi)
    ctx.add(z3.And(v >= lo, v <= hi))
    return v


def fresh_bool(name):
    v = z3.Bool(name)
    _KEEP.append(v)
    return v


class PChar:
    """A partitioned character: If(k1, t1, If(k2, t2, ..., t_last)).

    classes: list of (tag, lo, hi) contiguous classes [term lo+p] or (tag, (domkey, ranges)) range-set classes
    [term = a variable with that domain; domain asserted lazily in final queries].  The last class is the else-branch.
    Guards (and optionally offsets, `share_off` tags) may be shared with another PChar (same kinds)."""

    def __init__(self, name, classes, other_dom=None, share=None, share_off=()):
        classes = list(classes)
        if other_dom is not None:
            classes.append(("o", other_dom))
        self.name, self.classes = name, classes
        self.guards, self.vars, self.terms = [], [], []
        for i, cl in enumerate(classes):
            tag = cl[0]
            if i < len(classes) - 1:
                self.guards.append(share.guards[i] if share is not None else fresh_bool(f"{name}_k{tag}"))
            if share is not None and tag in share_off:
                v, t = share.vars[i], share.terms[i]
            elif len(cl) == 3:
                lo, hi = cl[1], cl[2]
                v = fresh_int(f"{name}_p{tag}", 0, hi - lo)
                t = lo + v
            else:
                dkey, dom = cl[1]
                v = z3.Int(f"{name}_{tag}")
                _KEEP.append(v)
                VAR_BOUNDS[v.get_id()] = (dom[0][0], dom[-1][1])
                VAR_DOMAIN[v.get_id()] = (dkey, dom)
                ctx.add(z3.And(v >= dom[0][0], v <= dom[-1][1]))
                if len(dom) > 1:
                    ctx.deferred.append((v, _dom_cond(v, dkey, dom), dom[0][0]))
                t = v
            self.vars.append(v)
            self.terms.append(t)
        if share is None and len(self.guards) > 1:
            for i in range(len(self.guards)):
                for j in range(i + 1, len(self.guards)):
                    ctx.add(z3.Not(z3.And(self.guards[i], self.guards[j])))
        e = self.terms[-1]
        for t, g in reversed(list(zip(self.terms[:-1], self.guards))):
            e = z3.If(g, t, e)
        self.term = e
        self.other = self.vars[-1] if len(classes[-1]) == 2 else None

    def kind(self, tag):
        """z3 Bool: this char lies in class `tag`"""
        for i, cl in enumerate(self.classes):
            if cl[0] == tag:
                if i < len(self.guards):
                    return self.guards[i]  # guards are mutually exclusive
                return z3.simplify(z3.And([z3.Not(g) for g in self.guards])) if self.guards else z3.BoolVal(True)
        raise KeyError(tag)

    def offset(self, tag):
        for i, cl in enumerate(self.classes):
            if cl[0] == tag:
                return self.vars[i]
        raise KeyError(tag)

    def value(self, m):
        for i, cl in enumerate(self.classes):
            if i < len(self.guards) and not z3.is_true(m.eval(self.guards[i], model_completion=True)):
                continue
            v = m.eval(self.vars[i], model_completion=True).as_long()
            return cl[1] + v if len(cl) == 3 else v
        raise AssertionError("unreachable")


_domc = {}


def _dom_cond(o, dkey, dom):
    k = (o.get_id(), dkey)
    if k not in _domc:
        _domc[k] = ranges_cond(o, dom)
    return _domc[k]


DIGIT = ("d", 48, 57)
UPPER = ("u", 65, 90)
LOWER = ("l", 97, 122)


def compact_char(name, share=None, share_off=()):
    """arbitrary clean-stable code point: ASCII digit | ASCII upper | any other clean-stable code point"""
    return PChar(name, [DIGIT, UPPER], ("stable", stable_other_domain()), share, share_off)


def raw_char(name):
    """arbitrary code point of Unicode, partitioned by how normalisation treats it:
    ASCII digit | ASCII upper | ASCII lower | whitespace | other 1->1 case-changing | expanding under upper() | stable"""
    segs, multi_r, _ = upper_tables()
    ws = category_ranges(r"\s")
    changed = [r for r in merge_ranges([[lo, hi] for lo, hi, d in segs]) ]
    changed = _minus(changed, [[97, 122]])
    return PChar(
        name,
        [DIGIT, UPPER, LOWER, ("w", ("ws", ws)), ("c", ("changed", changed)), ("x", ("expanding", multi_r))],
        ("stable", stable_other_domain()),
    )


def _minus(rs, cut):
    return intersect_ranges(rs, complement(cut))


def alnum_char(name, share=None, share_off=()):
    """[0-9A-Z] only (no residual class)"""
    return PChar(name, [DIGIT, UPPER], None, share, share_off)


def digit_char(name):
    return PChar(name, [DIGIT], None)


def upper_char(name):
    return PChar(name, [UPPER], None)


def model_string(m, chars):
    """concrete code points of a list of PChar / int / z3 terms under model m"""
    out = []
    for c in chars:
        if isinstance(c, PChar):
            out.append(c.value(m))
        elif isinstance(c, int):
            out.append(c)
        else:
            out.append(m.eval(c, model_completion=True).as_long())
    return out
