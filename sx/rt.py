"""Runtime entry points used by the instrumented code (imported there as __sx__)."""
import builtins
import itertools
import re
import types

import z3

from sx import models
from sx.core import Inconclusive, PathAbort, StopExploration, Unmodelled, ctx, explore  # noqa: F401
from sx.models import SymMatch  # noqa: F401
from sx.terms import *  # noqa: F401,F403
from sx.values import *  # noqa: F401,F403
from sx.values import Dec, Opt, StrBase, SymBool, SymInt, SymStr, is_sym, mkbool, mkint, mkstr, zb, zc, zi

_PAT_TYPE = type(re.compile(""))

MONITOR = {"on": False, "baseline_ids": None}


def enter(qualname):
    ctx.entered.add(qualname)


_ATOM = (str, int, float, bool, type(None), bytes)


def deep_sym(x, d=0):
    if isinstance(x, _ATOM):
        return False
    if is_sym(x):
        return True
    if d < 3 and isinstance(x, (list, tuple)):
        return any(deep_sym(y, d + 1) for y in x)
    if d < 3 and isinstance(x, dict):
        return any(deep_sym(y, d + 1) for y in x.values())
    return False


# ---------------------------------------------------------------- pure-Python stand-ins for builtins
def _sorted(it, key=None, reverse=False):
    """stable merge-free insertion sort through (possibly symbolic) comparisons; same result as sorted()"""
    items = list(iter_(it))
    keys = [key(x) if key is not None else x for x in items]
    if not any(deep_sym(k) for k in keys):
        return builtins.sorted(items, key=key, reverse=reverse)
    idx = []
    for i in range(len(items)):
        # insert i keeping stability: after all j with not (key_i < key_j)   [reverse: not (key_j < key_i) ...]
        pos = len(idx)
        while pos > 0:
            j = idx[pos - 1]
            lt = (keys[j] < keys[i]) if reverse else (keys[i] < keys[j])
            if lt:
                pos -= 1
            else:
                break
        idx.insert(pos, i)
    return [items[i] for i in idx]


def _minmax(f, args, kw):
    if len(args) == 1:
        items = list(iter_(args[0]))
    else:
        items = list(args)
    if not deep_sym(items):
        return f(*args, **kw)
    key = kw.get("key")
    if not items:
        if "default" in kw:
            return kw["default"]
        raise ValueError("empty sequence")
    best = items[0]
    for x in items[1:]:
        a, b = (key(x), key(best)) if key else (x, best)
        if (a < b) if f is builtins.min else (a > b):
            best = x
    return best


def model_hash(x):
    """hash of a symbolic string: uninterpreted function of its content, represented by the content itself"""
    if isinstance(x, StrBase):
        x = x._s
    if isinstance(x, str):
        return builtins.hash(x)
    if isinstance(x, SymStr):
        return HashOf(x)
    if isinstance(x, (SymInt, SymBool)):
        raise Unmodelled("hash of symbolic number")
    return builtins.hash(x)


class HashOf(int):
    """hash(s) for symbolic s: equal contents give equal hashes; nothing else is known.  It is an int (value 0) so
    that real dicts / sets accept objects hashing to it: all symbolic strings collide, and membership is then decided
    by the objects' own == (a symbolic Boolean, i.e. an engine fork) - exactly a hash table's semantics."""

    def __new__(cls, s):
        o = int.__new__(cls, 0)
        o.s = s
        return o

    def __eq__(self, o):
        if isinstance(o, HashOf):
            r = self.s == o.s
            if isinstance(r, SymBool) or r is True:
                if r is True:
                    return True
                # equal content => equal hash; unequal content => unknown -> inconclusive if asked
                if ctx.must(r.e):
                    return True
                raise Unmodelled("comparison of hashes of possibly different symbolic strings")
            raise Unmodelled("comparison of hashes of different strings")
        if isinstance(o, int):
            raise Unmodelled("comparison of symbolic hash with concrete int")
        return NotImplemented

    __hash__ = None


_MUTATORS = {"append", "extend", "insert", "pop", "remove", "clear", "sort", "reverse", "setdefault", "update", "popitem", "add", "discard", "__setitem__", "__delitem__"}


class UndoLog:
    """first-write snapshots of containers / attributes mutated by instrumented code, so a harness can restore the
    state a call found (used to evaluate 'the same call in a fresh process' inside one path)"""

    def __init__(self):
        self.containers = {}
        self.attrs = {}

    def note_container(self, obj):
        if id(obj) not in self.containers:
            self.containers[id(obj)] = (obj, obj.copy())

    def note_attr(self, obj, name):
        k = (id(obj), name)
        if k not in self.attrs:
            self.attrs[k] = (obj, name, obj.__dict__.get(name, UndoLog), name in obj.__dict__)

    def restore(self):
        for obj, snap in self.containers.values():
            if isinstance(obj, list):
                obj[:] = snap
            else:
                obj.clear()
                obj.update(snap)
        for obj, name, old, had in self.attrs.values():
            if had:
                obj.__dict__[name] = old
            else:
                obj.__dict__.pop(name, None)
        self.containers, self.attrs = {}, {}


_PASS_BUILTINS = {
    builtins.zip,
    builtins.enumerate,
    builtins.reversed,
    builtins.iter,
    builtins.next,
    builtins.list,
    builtins.tuple,
    builtins.range,
    builtins.dict,
    builtins.getattr,
    builtins.hasattr,
    builtins.setattr,
    builtins.id,
    builtins.type,
    builtins.callable,
    builtins.slice,
    builtins.print,
    builtins.repr,
    builtins.set,
    builtins.frozenset,
}


def call(f, *a, **k):
    if not ctx.active:
        return f(*a, **k)
    if any(isinstance(x, Merged) for x in a) or any(isinstance(x, Merged) for x in k.values()):
        a = tuple(demerge(x) for x in a)
        k = {kk: demerge(v) for kk, v in k.items()}
    if isinstance(getattr(f, "__self__", None), Merged) and getattr(f, "__name__", "") != "get":
        f = getattr(f.__self__.resolve(), f.__name__)
    if isinstance(f, _LRU_TYPE):
        return _lru_call(f, a, k)
    if isinstance(f, types.MethodType) and isinstance(f.__func__, _LRU_TYPE):
        return _lru_call(f.__func__, (f.__self__,) + tuple(a), k)
    if f is builtins.range and RANGE_CAP["n"] and len(a) == 1 and isinstance(a[0], int) and a[0] > RANGE_CAP["n"] and a[0] == RANGE_CAP["of"]:
        return builtins.range(RANGE_CAP["n"])
    if f is builtins.int:
        return models.model_int(*a, **k)
    if f is builtins.str:
        return models.model_str(*a, **k)
    if f is builtins.sum:
        return models.model_sum(*a, **k)
    if f is builtins.isinstance:
        return models.model_isinstance(*a)
    if f is builtins.len:
        return len(a[0])
    if f is builtins.all:
        return models.model_all(iter_(a[0]))
    if f is builtins.any:
        return models.model_any(iter_(a[0]))
    if f is builtins.sorted:
        return _sorted(*a, **k)
    if f is builtins.min or f is builtins.max:
        return _minmax(f, a, k)
    if f is builtins.hash:
        return model_hash(a[0])
    if f is builtins.bool:
        x = a[0] if a else False
        if isinstance(x, SymBool):
            return x
        if isinstance(x, SymInt):
            return mkbool(x.e != 0)
        return builtins.bool(x)
    if f is builtins.abs and a and isinstance(a[0], SymInt):
        return mkint(z3.If(a[0].e >= 0, a[0].e, -a[0].e))
    if f is builtins.divmod and a and isinstance(a[0], SymInt):
        return (a[0] // a[1], a[0] % a[1])
    if f is builtins.format:
        v, spec = a[0], (a[1] if len(a) > 1 else "")
        if isinstance(v, SymInt):
            return models.model_format_int(v, spec)
        if is_sym(v):
            if spec:
                raise Unmodelled("format spec on symbolic str")
            return models.model_str(v)
        return builtins.format(*a)
    if f is builtins.reversed and a and isinstance(a[0], (SymStr, StrBase)):
        return reversed(a[0])
    if (f is builtins.set or f is builtins.frozenset) and a and deep_sym(list(a[0]) if not is_sym(a[0]) else a[0]):
        raise Unmodelled("set of symbolic values")
    if f is builtins.dict and (deep_sym(a) and _sym_keys(a)):
        raise Unmodelled("dict with symbolic keys")
    if f is re.match or f is re.fullmatch or f is re.search:
        if deep_sym(a[1]):
            if f is re.search:
                raise Unmodelled("re.search on symbolic subject")
            flags = k.get("flags", a[2] if len(a) > 2 else 0)
            flags = re.compile(a[0], flags).flags
            return models.model_re_match(a[0], flags, a[1], full=f is re.fullmatch)
        a = tuple(_plain(x) for x in a)
        return f(*a, **k)
    if f is re.sub and deep_sym(a):
        raise Unmodelled("re.sub on symbolic subject")
    slf = getattr(f, "__self__", None)
    if isinstance(f, types.BuiltinMethodType) and slf is not None and not isinstance(slf, types.ModuleType):
        name = f.__name__
        if name in _MUTATORS and isinstance(slf, (dict, list, set)):
            _note_write("call:" + name, slf, None)
            if ctx.undo is not None:
                ctx.undo.note_container(slf)
        if isinstance(slf, str):
            if name == "join":
                return models.model_join(slf, iter_(a[0]))
            if deep_sym(a):
                if name == "index" and len(a) == 1:
                    return models.model_index(slf, *a)
                if name == "format":
                    raise Unmodelled("str.format with symbolic argument")
                if name in ("startswith", "endswith", "zfill", "__eq__", "__add__"):
                    return getattr(SymStr.of(slf), name)(*a)
                raise Unmodelled(f"str.{name} with symbolic argument")
        elif isinstance(slf, _PAT_TYPE):
            if deep_sym(a):
                if name == "match":
                    return models.model_re_match(slf.pattern, slf.flags, a[0])
                if name == "fullmatch":
                    return models.model_re_match(slf.pattern, slf.flags, a[0], full=True)
                if name == "sub" and a[0] == "" and len(a) == 2:
                    return models.model_re_sub_delete(slf, a[1])
                raise Unmodelled(f"Pattern.{name} on symbolic subject")
            a = tuple(_plain(x) for x in a)
        elif isinstance(slf, dict):
            if name in ("get", "pop", "setdefault", "__getitem__", "__contains__") and a and is_sym(a[0]):
                if name == "get":
                    try:
                        return getitem(slf, a[0])
                    except KeyError:
                        return a[1] if len(a) > 1 else None
                if name == "__contains__":
                    return contains(slf, a[0])
                raise Unmodelled(f"dict.{name} with symbolic key")
            if name in ("get", "pop", "__getitem__", "__contains__") and a and isinstance(a[0], tuple) and deep_sym(
                a[0]
            ):
                if name == "get":
                    return _dict_lookup_tuple(slf, a[0], a[1] if len(a) > 1 else None)
                raise Unmodelled(f"dict.{name} with symbolic tuple key")
        elif isinstance(slf, (list,)):
            if name in ("index", "count", "remove", "__contains__") and deep_sym(a):
                raise Unmodelled(f"list.{name} with symbolic argument")
            if name == "sort":
                res = _sorted(slf, **k)
                slf[:] = res
                return None
        elif isinstance(slf, (set, frozenset)):
            if deep_sym(a):
                raise Unmodelled(f"set.{name} with symbolic argument")
        elif deep_sym(a):
            raise Unmodelled(f"builtin method {type(slf).__name__}.{name} with symbolic argument")
    elif isinstance(f, types.BuiltinFunctionType) and deep_sym(a):
        if f not in _PASS_BUILTINS:
            raise Unmodelled(f"builtin {getattr(f, '__name__', f)} with symbolic argument")
    elif isinstance(f, type) and f.__module__ in ("builtins",) and f not in _PASS_BUILTINS and deep_sym(a):
        if not issubclass(f, BaseException):
            raise Unmodelled(f"builtin type {f.__name__} with symbolic argument")
    else:
        h = EXTERNAL_MODELS.get(_fkey(f))
        if h is not None:
            return h(f, a, k)
        if deep_sym(a) or deep_sym(tuple(k.values())):
            mod = getattr(f, "__module__", None) or ""
            if isinstance(f, (types.FunctionType, types.MethodType)) and not _instrumented(mod):
                if mod not in ("copy", "copyreg", "functools", "dataclasses", "operator", "abc", "enum", "typing"):
                    raise Unmodelled(f"un-instrumented function {mod}.{getattr(f, '__qualname__', f)} with symbolic argument")
    return f(*a, **k)


def _sym_keys(a):
    return False


def _plain(x):
    return x._s if isinstance(x, StrBase) and isinstance(x._s, str) else x


def _instrumented(mod):
    return mod == "schwifty" or mod.startswith("schwifty.") or mod.startswith("sx") or mod.startswith("harness") or mod.startswith("spec")


class Merged:
    """result of a look-up by symbolic key into a concrete table: mutually exclusive alternatives (cond, value).
    Operations distribute over the alternatives and collapse when all alternatives agree, so a look-up among
    thousands of registry rows does not fork unless the rows really differ in what is asked of them."""

    def __init__(self, alts):
        self.alts = alts

    @staticmethod
    def _gkey(v):
        if isinstance(v, (str, int, bool, type(None))):
            return (type(v).__name__, v)
        if isinstance(v, tuple):
            try:
                hash(v)
                return ("tuple", v)
            except TypeError:
                pass
        return ("id", id(v))

    @staticmethod
    def _group(pairs):
        """pairs: iterable of (result, (cond, value)) -> ordered list of (result, [(cond, value), ...])"""
        groups, order = {}, []
        for r, cv in pairs:
            k = Merged._gkey(r)
            g = groups.get(k)
            if g is None:
                g = groups[k] = (r, [])
                order.append(k)
            g[1].append(cv)
        return [groups[k] for k in order]

    @staticmethod
    def make(alts):
        groups = Merged._group((v, (c, v)) for c, v in alts)
        if len(groups) == 1:
            return groups[0][0]
        return Merged([(z3.Or([c for c, _ in cvs]) if len(cvs) > 1 else cvs[0][0], v) for v, cvs in groups])

    def fork_by(self, f):
        """fork on the distinct results of f over the alternatives; the alternatives are narrowed (in place) to the
        group taken, so later operations on this object do not revisit excluded rows"""
        groups = Merged._group((f(v), (c, v)) for c, v in self.alts)
        if len(groups) > 1:
            i = ctx.choose_n([z3.Or([c for c, _ in alts]) for _, alts in groups])
        else:
            i = 0
        self.alts = groups[i][1]
        return groups[i][0]

    def resolve(self):
        """fork on the distinct values"""
        return self.fork_by(lambda v: v)

    def map(self, f):
        return Merged.make([(c, f(v)) for c, v in self.alts])

    def __bool__(self):
        return self.fork_by(bool)

    def __getitem__(self, k):
        return self.map(lambda v: getitem(v, k))

    def get(self, k, d=None):
        return self.map(lambda v: v.get(k, d))

    def __len__(self):
        return self.fork_by(len)

    def __iter__(self):
        return iter(self.resolve())

    def __eq__(self, o):
        r = self.map(lambda v: v == o)
        return r.resolve() if isinstance(r, Merged) else r

    def __ne__(self, o):
        r = self.__eq__(o)
        return not_(r)

    __hash__ = None

    def __getattr__(self, name):
        if name.startswith("__"):
            raise AttributeError(name)
        return getattr(self.resolve(), name)


def demerge(x):
    return x.resolve() if isinstance(x, Merged) else x


import functools as _functools

_LRU_TYPE = type(_functools.lru_cache(maxsize=1)(lambda: None))


def _lru_call(f, a, k):
    """functools.lru_cache wrapper: emulated per path as an association list whose keys are compared with ==
    (so objects with content-blind or symbolic equality behave as they would in the real cache); the real
    process-wide cache is never touched by the engine"""
    store = ctx.path_cache.setdefault(("lru", id(f)), [])
    ctx.nondet.append(("memo", getattr(f, "__qualname__", "?")))
    key = tuple(a) + tuple(sorted(k.items()))
    for k0, v0 in store:
        if len(k0) != len(key):
            continue
        same = True
        for x, y in zip(k0, key):
            if type(x) is not type(y) and not (isinstance(x, (str, StrBase)) and isinstance(y, (str, StrBase)) and type(x) is type(y)):
                same = False
                break
            r = x == y
            if isinstance(r, SymBool):
                r = bool(r)
            if not r:
                same = False
                break
        if same:
            return v0
    v = f.__wrapped__(*a, **k)
    store.append((key, v))
    return v


RANGE_CAP = {"n": 0, "of": 100}  # harness hook: a retry loop `range(of)` is explored for n iterations only


EXTERNAL_MODELS = {}


def _fkey(f):
    fn = getattr(f, "__func__", f)
    return (getattr(fn, "__module__", None), getattr(fn, "__qualname__", None))


def external_model(module, qualname):
    def deco(h):
        EXTERNAL_MODELS[(module, qualname)] = h
        return h

    return deco


# ---------------------------------------------------------------- f-strings
def fstring(parts):
    out = []
    for p in parts:
        if isinstance(p, str):
            out.append(p)
            continue
        v, conv, spec = p
        if conv == ord("r") or conv == ord("a"):
            out.append("<repr>" if is_sym(v) or isinstance(v, StrBase) else repr(v))
            continue
        if isinstance(v, SymInt):
            out.append(models.model_format_int(v, spec))
            continue
        if isinstance(v, SymBool):
            raise Unmodelled("formatting a symbolic bool")
        if is_sym(v):
            if spec:
                raise Unmodelled("format spec on symbolic str")
            out.append(models.model_str(v))
            continue
        if isinstance(v, StrBase):
            v = v._s
        if is_sym(spec):
            raise Unmodelled("symbolic format spec")
        out.append(format(v if conv == -1 else str(v), spec))
    return models.model_join("", out)


# ---------------------------------------------------------------- subscripts / containment / identity
def _concretize_small(x):
    """a symbolic integer with a small interval is forked over its values (slice bounds, indices)"""
    if not isinstance(x, SymInt):
        return x
    b = ival(x.e)  # noqa: F405
    if b is None or b[1] - b[0] > 24:
        raise Unmodelled("symbolic slice bound / index with a large or unknown range")
    vals = list(range(b[0], b[1] + 1))
    return vals[ctx.choose_n([x.e == v for v in vals])]


def getitem(obj, key):
    if isinstance(obj, Merged):
        return obj[key]
    if isinstance(key, slice) and any(isinstance(x, SymInt) for x in (key.start, key.stop, key.step)):
        key = slice(_concretize_small(key.start), _concretize_small(key.stop), _concretize_small(key.step))
    if isinstance(key, Merged):
        key = key.resolve()
    if isinstance(obj, StrBase):
        if type(obj).__getitem__ is not StrBase.__getitem__:
            return obj.__getitem__(key)
        obj = obj._s
    if isinstance(key, StrBase) and isinstance(key._s, SymStr) and isinstance(obj, dict) and any(not isinstance(k, str) for k in obj):
        return obj[key]  # value object as key of a real hash table (see contains)
    if isinstance(key, StrBase):
        key = key._s
    if isinstance(obj, SymStr):
        return obj[key]
    if isinstance(key, SymStr):
        c = key.concrete()
        if c is not None:
            return obj[c]
        if isinstance(obj, dict):
            return _dict_lookup(obj, key)
        raise Unmodelled(f"symbolic str key into {type(obj).__name__}")
    if isinstance(key, tuple) and deep_sym(key):
        if isinstance(obj, dict):
            return _dict_lookup_tuple(obj, key)
        raise Unmodelled("symbolic tuple key")
    if isinstance(key, SymInt):
        if isinstance(obj, (list, tuple, str)):
            vals = [ord(x) if isinstance(obj, str) else x for x in obj]
            if not all(isinstance(v, int) and not isinstance(v, bool) for v in vals):
                # objects: fork
                n = len(vals)
                if not ctx.choose(z3.And(key.e >= -n, key.e < n)):
                    raise IndexError("index out of range")
                i = ctx.choose_n([z3.Or(key.e == j, key.e == j - n) for j in range(n)])
                return obj[i]
            n = len(vals)
            b = ival(key.e)  # noqa: F405
            if not (b is not None and b[0] >= -n and b[1] < n):
                if not ctx.choose(z3.And(key.e >= -n, key.e < n)):
                    raise IndexError("index out of range")
            if not (b is not None and b[0] >= 0):
                if ctx.choose(key.e < 0):
                    return getitem(obj, mkint(key.e + n))
            segs = segments({i: v for i, v in enumerate(vals)})  # noqa: F405
            e = None
            for lo, hi, d in reversed(segs):
                t = key.e + d
                e = t if e is None else z3.If(z3.And(key.e >= lo, key.e <= hi) if lo != hi else key.e == lo, t, e)
            e = z3.simplify(e)
            return mkstr([e]) if isinstance(obj, str) else mkint(e)
        raise Unmodelled(f"symbolic int key into {type(obj).__name__}")
    if isinstance(key, slice) and any(isinstance(x, SymInt) for x in (key.start, key.stop, key.step)):
        raise Unmodelled("symbolic slice bound")
    return obj[key]


def _dict_lookup(obj, key):
    n = len(key)
    ks = [kk for kk in obj if isinstance(kk, str) and len(kk) == n]
    if n == 1 and ks:
        vals = [obj[kk] for kk in ks]
        q = key._dense().p[0]
        if all(isinstance(v, str) and len(v) == 1 for v in vals) or all(isinstance(v, int) and not isinstance(v, bool) for v in vals):
            # single-character table: merged affine-segment look-up instead of a fork per key
            as_str = isinstance(vals[0], str)
            segs = segments({ord(kk): (ord(v) if as_str else v) for kk, v in zip(ks, vals)})  # noqa: F405
            found = in_ranges(q, [[lo, hi] for lo, hi, d in segs])  # noqa: F405
            if not ctx.choose(found):
                raise KeyError("<symbolic>")
            e = prune_ite(seg_lookup(q, segs))  # noqa: F405
            return mkstr([e]) if as_str else mkint(e)
    zs = []
    for kk in ks:
        r = key == kk
        zs.append(zb(r) if isinstance(r, SymBool) else z3.BoolVal(bool(r)))
    none = z3.Not(z3.Or(zs)) if zs else z3.BoolVal(True)
    if not ks or not ctx.choose(z3.Not(none)):
        raise KeyError("<symbolic>")
    return Merged.make([(c, obj[kk]) for c, kk in zip(zs, ks)])


def _tuple_key_conds(obj, key):
    ck = ("tkc", id(obj), len(obj), tuple(_piece_ids(a) for a in key))
    hit = _TKC.get(ck)
    if hit is not None and hit[0] is obj and _same_pieces(hit[3], key):
        return hit[1], hit[2]
    cands, zs = _tuple_key_conds_(obj, key)
    if len(_TKC) > 64:
        _TKC.clear()
    _TKC[ck] = (obj, cands, zs, key)  # the key (and its z3 terms) stays alive, so ids cannot be reused
    return cands, zs


_TKC = {}


def _same_pieces(k1, k2):
    for a, b in zip(k1, k2):
        a = a._s if isinstance(a, StrBase) else a
        b = b._s if isinstance(b, StrBase) else b
        if isinstance(a, SymStr) and isinstance(b, SymStr):
            if len(a.p) != len(b.p):
                return False
            for x, y in zip(a.p, b.p):
                if isinstance(x, int) or isinstance(y, int):
                    if x is not y and x != y:
                        return False
                elif hasattr(x, "eq"):
                    if not (hasattr(y, "eq") and x.eq(y)):
                        return False
                elif x is not y:
                    return False
        elif a != b:
            return False
    return True


def _piece_ids(a):
    a = a._s if isinstance(a, StrBase) else a
    if isinstance(a, SymStr):
        return tuple(q if isinstance(q, int) else (q.get_id() if hasattr(q, "get_id") else id(q)) for q in a.p)
    return a if isinstance(a, (str, int)) else id(a)


def _tuple_key_conds_(obj, key):
    cands, zs = [], []
    for kk in obj:
        if not (isinstance(kk, tuple) and len(kk) == len(key)):
            continue
        conds, ok = [], True
        for a, b in zip(key, kk):
            a = a._s if isinstance(a, StrBase) else a
            b = b._s if isinstance(b, StrBase) else b
            if isinstance(a, SymStr) and not isinstance(b, (str, SymStr)):
                ok = False
                break
            r = a == b
            if r is False or r is NotImplemented:
                ok = False
                break
            if r is not True:
                conds.append(zb(r))
        if ok:
            cands.append(kk)
            zs.append(z3.And(conds) if len(conds) > 1 else (conds[0] if conds else z3.BoolVal(True)))
    return cands, zs


def _dict_lookup_tuple(obj, key, default=KeyError):
    cands, zs = _tuple_key_conds(obj, key)
    none = z3.Not(z3.Or(zs)) if zs else z3.BoolVal(True)
    if default is KeyError:
        if not cands or not ctx.choose(z3.Not(none)):
            raise KeyError("<symbolic>")
        return Merged.make([(c, obj[k]) for c, k in zip(zs, cands)])
    return Merged.make([(c, obj[k]) for c, k in zip(zs, cands)] + [(none, default)])


def contains(container, item):
    if isinstance(container, StrBase):
        container = container._s
    if isinstance(item, StrBase) and isinstance(item._s, SymStr) and isinstance(container, (dict, set, frozenset)):
        # a value object as key of a real hash table: constant symbolic hash, membership decided by its own ==
        return item in container
    if isinstance(item, StrBase):
        item = item._s
    if isinstance(container, range) and isinstance(item, SymInt):
        lo, hi, st = container.start, container.stop, container.step
        if st > 0:
            c = z3.And(item.e >= lo, item.e < hi)
            return mkbool(z3.And(c, (item.e - lo) % st == 0) if st != 1 else c)
        raise Unmodelled("`in` on a descending range with symbolic operand")
    if is_sym(item) or is_sym(container) or (isinstance(item, tuple) and deep_sym(item)):
        if isinstance(container, (set, frozenset, list, tuple)):
            zs = []
            for x in container:
                c = item == x
                if c is True:
                    return True
                if c is False or c is NotImplemented:
                    continue
                zs.append(zb(c))
            return mkbool(z3.Or(zs)) if zs else False
        if isinstance(container, dict):
            try:
                getitem(container, item)
                return True
            except KeyError:
                return False
        if isinstance(container, str) and isinstance(item, SymStr):
            if len(item) == 1:
                q = item._dense().p[0]
                return mkbool(in_ranges(q, ranges([ord(c) for c in container])))  # noqa: F405
            raise Unmodelled("substring test with symbolic needle")
        raise Unmodelled(f"`in` on {type(container).__name__} with symbolic operand")
    return item in container


def not_contains(container, item):
    return not_(contains(container, item))


def not_(x):
    if isinstance(x, Merged):
        x = bool(x)
    if isinstance(x, SymBool):
        return mkbool(z3.Not(x.e))
    if isinstance(x, SymInt):
        return mkbool(x.e == 0)
    return not x


def is_(a, b):
    if isinstance(a, Merged):
        r = a.map(lambda v: v is b)
        return bool(r) if isinstance(r, Merged) else r
    if isinstance(a, SymBool) and isinstance(b, bool):
        return mkbool(a.e == b)
    if isinstance(b, SymBool) and isinstance(a, bool):
        return mkbool(b.e == a)
    if is_sym(a) or is_sym(b):
        if b is None or a is None:
            return False
        if a is b:
            return True
        raise Unmodelled("`is` on symbolic operands")
    return a is b


def is_not(a, b):
    return not_(is_(a, b))


# ---------------------------------------------------------------- iteration (set order = fork; nondeterminism monitor)
_SET_REVERSE = bool(__import__("os").environ.get("SX_SET_REVERSE"))


def iter_(it):
    if isinstance(it, (set, frozenset)):
        items = list(it)
        if _SET_REVERSE:
            items.reverse()  # a second legal iteration order of every set (hash-seed independence, C13/C18)
        if len(items) <= 1:
            return items
        ctx.nondet.append(("set-iteration", len(items)))
        if ctx.active and SET_ORDER["fork"] and len(items) <= 4:
            perms = list(itertools.permutations(sorted(items, key=repr)))
            return list(perms[ctx.choose_free(len(perms))])
        return items
    return it


SET_ORDER = {"fork": False}


# ---------------------------------------------------------------- write monitor
def _note_write(kind, obj, key):
    if MONITOR["on"]:
        ctx.writes.append((kind, id(obj), type(obj).__name__, key if isinstance(key, (str, int)) else repr(type(key))))
    if ctx.on_shared_access is not None:
        ctx.on_shared_access("w", obj, key)


def getattr_(obj, name):
    if ctx.on_shared_access is not None:
        ctx.on_shared_access("r", obj, name)
    return builtins.getattr(obj, name)


def setattr_(obj, name, value):
    _note_write("setattr", obj, name)
    if ctx.undo is not None:
        ctx.undo.note_attr(obj, name)
    builtins.setattr(obj, name, value)
    if ctx.on_shared_access is not None:
        ctx.on_shared_access("w+", obj, name)


def setitem_(obj, key, value):
    _note_write("setitem", obj, key)
    if ctx.undo is not None:
        ctx.undo.note_container(obj)
    if is_sym(key) or (isinstance(key, tuple) and deep_sym(key)):
        if isinstance(obj, dict) and isinstance(key, (SymInt, SymBool)):
            raise Unmodelled("dict store with symbolic number as key")
        # symbolic strings / value objects hash to a constant: the real dict then decides membership by == (engine forks)
    obj[key] = value


def delattr_(obj, name):
    _note_write("delattr", obj, name)
    if ctx.undo is not None:
        ctx.undo.note_attr(obj, name)
    builtins.delattr(obj, name)


def delitem_(obj, key):
    _note_write("delitem", obj, key)
    if ctx.undo is not None:
        ctx.undo.note_container(obj)
    del obj[key]
