"""Models of third-party functions on the library's paths (pycountry, rstr, random)."""
import z3

from sx import rt
from sx.core import Unmodelled, ctx
from sx.terms import in_ranges, ranges, seg_lookup, segments
from sx.values import StrBase, SymStr, is_sym, mkbool

_PC = {}


def pycountry_tables():
    """derived from the installed pycountry at run start: alpha-2 keys and the single-code-point lower() table"""
    if not _PC:
        import pycountry

        keys = sorted(c.alpha_2.lower() for c in pycountry.countries)
        real_index = pycountry.countries.indices["alpha_2"]
        if sorted(real_index) != keys or not all(len(k) == 2 and k.isascii() and k.isalpha() and k.islower() for k in keys):
            raise Unmodelled("pycountry alpha_2 index has an unexpected shape")
        low1 = {}
        for c in range(0x110000):
            l = chr(c).lower()
            if len(l) == 1 and "a" <= l <= "z":
                low1[c] = ord(l)
            elif any("a" <= x <= "z" for x in l) and all(x.isascii() for x in l):
                raise Unmodelled(f"code point {c:#x} lower-cases to several ASCII characters")
        _PC["keys"] = keys
        _PC["low1_segs"] = segments(low1)
        _PC["low1_ranges"] = ranges(list(low1))
        # probe the contract on the real object: case-insensitive, None when absent
        assert pycountry.countries.get(alpha_2="de") is not None and pycountry.countries.get(alpha_2="Zz") is None
        assert pycountry.countries.get(alpha_2="K" + "y") is pycountry.countries.get(alpha_2="KY")
    return _PC


class SymCountry:
    """non-None result of countries.get on a symbolic code; only its identity versus None is modelled"""

    def __getattr__(self, name):
        raise Unmodelled(f"pycountry Country.{name} on symbolic lookup")


def alpha2_known(s):
    """z3 Bool / bool: pycountry.countries.get(alpha_2=s) is not None"""
    T = pycountry_tables()
    s = SymStr.of(s)._dense()
    if len(s.p) != 2:
        # lower() never shortens; 1 -> 2 expansions never yield two ASCII letters (checked when building the table)
        return False
    lows = []
    for q in s.p:
        if isinstance(q, int):
            l = chr(q).lower()
            if not (len(l) == 1 and "a" <= l <= "z"):
                return False
            lows.append(ord(l))
        else:
            lows.append(q)
    conds = []
    for q in lows:
        if not isinstance(q, int):
            conds.append(in_ranges(q, T["low1_ranges"]))
    la = [q if isinstance(q, int) else seg_lookup(q, T["low1_segs"]) for q in lows]
    pair = la[0] * 256 + la[1]
    codes = ranges([ord(k[0]) * 256 + ord(k[1]) for k in T["keys"]])
    member = z3.Or([z3.And(pair >= lo, pair <= hi) if lo != hi else pair == lo for lo, hi in codes])
    return mkbool(z3.And(conds + [member]))


@rt.external_model("pycountry.db", "lazy_load.<locals>.load_if_needed")
def _pycountry_lazy(f, a, k):
    import pycountry

    slf = getattr(f, "__self__", None)
    if not (rt.deep_sym(a) or rt.deep_sym(tuple(k.values()))):
        k = {kk: (v._s if isinstance(v, StrBase) else v) for kk, v in k.items()}
        return f(*a, **k)
    if slf is pycountry.countries and not a and set(k) == {"alpha_2"}:
        r = alpha2_known(k["alpha_2"])
        if isinstance(r, bool):
            return SymCountry() if r else None
        return SymCountry() if ctx.choose(r.e) else None
    raise Unmodelled("pycountry call with symbolic argument other than countries.get(alpha_2=...)")
