"""Differential self-test of the environment models against the real builtins (run at the start of every check)."""
import re

import z3

from sx import models, rt
from sx.core import ctx, explore
from sx.terms import category_ranges, fresh_int, upper_tables
from sx.values import SymStr


def _pinned(s, pre="st"):
    """symbolic string whose characters are pinned to s by constraints (exercises the symbolic code paths)"""
    cs = []
    for i, ch in enumerate(s):
        v = fresh_int(f"{pre}{i}", 0, 0x10FFFF)
        ctx.add(v == ord(ch))
        cs.append(v)
    return SymStr(cs)


def _concretize(x):
    from sx.values import StrBase, SymBool, SymInt

    if isinstance(x, (SymStr, StrBase, SymInt, SymBool)):
        ctx.flush_deferred()
        assert ctx.solver.check() == z3.sat
        m = ctx.solver.model()
        if isinstance(x, SymBool):
            return z3.is_true(m.eval(x.e, model_completion=True))
        if isinstance(x, SymInt):
            return m.eval(x.e, model_completion=True).as_long()
        s = SymStr.of(x)._dense()
        return "".join(chr(q if isinstance(q, int) else m.eval(q, model_completion=True).as_long()) for q in s.p)
    if isinstance(x, models.SymMatch):
        return True
    return x


CASES = []


def case(f):
    CASES.append(f)
    return f


_STRS = ["", "0", "7", "Z", "a", "ß", "ſ", "ǆ", "٠", "३", " ", "\n", "\x1c", " ", "　", "DE89", "de 89\t37", "١٢٣", "0012", "９９", "A\nB", "ŉx", "ﬃ", "İ", "\ud800"]


@case
def t_upper():
    return [(lambda s=s: models.model_upper(_pinned(s)), (lambda s=s: s.upper())) for s in _STRS]


@case
def t_sub():
    pat = re.compile(r"\s+")
    return [(lambda s=s: models.model_re_sub_delete(pat, _pinned(s)), (lambda s=s: pat.sub("", s))) for s in _STRS]


@case
def t_match():
    pats = [r"[A-Z]{2}\d{2}[A-Z]*", r"^\d{8}\d{10}$", r"^[A-Z]{4}[A-Za-z0-9]{3}$", r"[A-Z0-9]{4}[A-Z]{2}[A-Z0-9]{2}(?:[A-Z0-9]{3})?", r"^\d{1,3}$", r"^ {2}$"]
    subj = ["DE89", "DE８9", "GENODEM1GLS", "GENODEM1G-S", "GENODEM1", "123", "123\n", "1234", "  ", "ABCDab1", "de89", "DE8٩XY", "370400440532013000", "37040044053201300\n"]
    out = []
    for p in pats:
        for s in subj:
            out.append((lambda p=p, s=s: bool(models.model_re_match(p, re.compile(p).flags, _pinned(s))), (lambda p=p, s=s: bool(re.match(p, s)))))
            out.append((lambda p=p, s=s: bool(models.model_re_match(p, re.compile(p).flags, _pinned(s), full=True)), (lambda p=p, s=s: bool(re.fullmatch(p, s)))))
            out.append((lambda p=p, s=s: bool(models.model_re_match(p, re.compile(p, re.ASCII).flags, _pinned(s))), (lambda p=p, s=s: bool(re.match(p, s, re.ASCII)))))
    return out


@case
def t_int():
    subj = ["0", "7", "0012", "١٢٣", "1٢3", "x", "", "९", "12a", "a1", "999999999999999999999", "٣", "Ⅷ", "²"]

    def real(s):
        try:
            return int(s)
        except ValueError:
            return "ValueError"

    def mod(s):
        try:
            return models.model_int(_pinned(s))
        except ValueError:
            return "ValueError"

    return [(lambda s=s: mod(s), (lambda s=s: real(s))) for s in subj]


@case
def t_str_of_int():
    out = []
    for n in [0, 5, 9, 10, 42, 99, 100, 12345]:
        def mod(n=n):
            v = fresh_int("n", 0, 99999)
            ctx.add(v == n)
            return models.model_str(rt.SymInt(v))
        out.append((mod, (lambda n=n: str(n))))
        def modf(n=n):
            v = fresh_int("n", 0, 99999)
            ctx.add(v == n)
            return models.model_format_int(rt.SymInt(v), "02d")
        out.append((modf, (lambda n=n: f"{n:02d}")))
    return out


@case
def t_misc():
    out = []
    for s in ["", "5", "+5", "-12", "abc", "0001", "12345678"]:
        for w in [0, 3, 6]:
            out.append((lambda s=s, w=w: models.model_zfill(_pinned(s), w), (lambda s=s, w=w: s.zfill(w))))
    for s in ["000", "1200", "0", "", "0120", "abc0"]:
        out.append((lambda s=s: models.strip_model(_pinned(s), "0", True), (lambda s=s: s.rstrip("0"))))
        out.append((lambda s=s: models.strip_model(_pinned(s), "0", False), (lambda s=s: s.lstrip("0"))))
    import string

    alpha = string.digits + string.ascii_uppercase

    def idx_real(c):
        try:
            return alpha.index(c)
        except ValueError:
            return "ValueError"

    def idx_mod(c):
        try:
            return models.model_index(alpha, _pinned(c))
        except ValueError:
            return "ValueError"

    for c in ["0", "9", "A", "Z", "a", "٣", "-"]:
        out.append((lambda c=c: idx_mod(c), (lambda c=c: idx_real(c))))
    for a, b in [("AB", "AB"), ("AB", "AC"), ("A", "AB"), ("B", "AB"), ("", "A"), ("ß", "z"), ("a", "B")]:
        out.append((lambda a=a, b=b: _pinned(a) < _pinned(b, "su") if a and b else rt.str_lt(SymStr.of(a), SymStr.of(b)), (lambda a=a, b=b: a < b)))
        out.append((lambda a=a, b=b: (_pinned(a) == _pinned(b, "su")) if a and b else (a == b), (lambda a=a, b=b: a == b)))
    return out


@case
def t_str_int_roundtrip():
    out = []
    for txt in ["0", "7", "007", "120", "0000", "1029", "000120"]:
        for mul in (1, 100):
            def mod(txt=txt, mul=mul):
                n = models.model_int(_pinned(txt))
                return models.model_str(n * mul if mul != 1 else n)
            out.append((mod, (lambda txt=txt, mul=mul: str(int(txt) * mul))))
    return out


@case
def t_preds():
    out = []
    for s in ["", "a", "A", "aB", "ab1", "AB1", "1", "١", "ǅ", "ǆa", "ß", " a", "a b", "É", "éa", "_", "a_"]:
        for name in ["isalnum", "isdigit", "isalpha", "islower", "isupper", "isspace", "isascii", "isdecimal"]:
            if not s:
                continue
            out.append((lambda s=s, name=name: models.model_str_pred(_pinned(s), name), (lambda s=s, name=name: getattr(s, name)())))
    return out


@case
def t_translate_delete():
    import string

    out = []
    tbl = str.maketrans("", "", string.whitespace)
    for s in ["a b", " a", "a\t\nb ", "a\u00a0b", "ab", "  ", "1 2\x0c3", "\u2003x"]:
        out.append((lambda s=s: models.model_translate(_pinned(s), tbl), (lambda s=s: s.translate(tbl))))
    return out


def run():
    ctx.start()
    ws_ok = category_ranges(r"\s") == rt.ranges([c for c in range(0x110000) if chr(c).isspace()])
    failures = [] if ws_ok else ["\\s differs from str.isspace in this interpreter"]
    upper_tables()
    n = 0
    for c in CASES:
        for mod, real in c():
            expected = real()
            got = {}

            def fn():
                got["v"] = _concretize(mod())

            try:
                k = explore(fn, lambda out: got.setdefault("exc", out[1]) if out[0] == "exc" else None)
            except BaseException as e:  # noqa: BLE001
                failures.append(f"selftest {c.__name__}: {type(e).__name__} {e}")
                continue
            n += 1
            if "exc" in got or got.get("v") != expected:
                failures.append(f"selftest {c.__name__}: model {got!r} != real {expected!r}")
    ctx.stats.clear()
    return {"traces": n, "model_cases": n, "failures": failures}
