"""Cooperative scheduler for C14: logical threads are real Python threads, exactly one runs at a time (baton).
A context switch is possible exactly at accesses (reads, before and after writes) of the *shared locations*
(attribute names of objects that existed before the threads started and that the calls under test write).
Which thread continues at a switch point is an engine fork, so all schedules at that granularity are enumerated."""
import threading

from sx.core import PathAbort, ctx


class Killed(BaseException):
    pass


class Scheduler:
    def __init__(self, shared):
        """shared: set of (id(obj), attr name) that are switch points"""
        self.shared = shared
        self.cv = threading.Condition()
        self.current = None
        self.alive = []
        self.results = {}
        self.error = None
        self.kill = False
        self.trace = []

    # called from inside logical threads (via ctx.on_shared_access)
    def access(self, kind, obj, name):
        if (id(obj), name) not in self.shared:
            return
        me = threading.current_thread().name
        if me not in self.alive:
            return
        self._switch(me)  # may hand the baton away; the access is performed (and logged) when we are resumed
        self.trace.append((me, kind, name))

    def _switch(self, me):
        runnable = [t for t in self.alive]
        if len(runnable) > 1:
            i = ctx.choose_free(len(runnable))
            nxt = runnable[i]
        else:
            nxt = runnable[0]
        if nxt != me:
            with self.cv:
                self.current = nxt
                self.cv.notify_all()
                while self.current != me and not self.kill:
                    self.cv.wait()
                if self.kill:
                    raise Killed

    def _body(self, name, fn):
        with self.cv:
            while self.current != name and not self.kill:
                self.cv.wait()
        try:
            if self.kill:
                raise Killed
            try:
                self.results[name] = ("ret", fn())
            except Exception as e:  # noqa: BLE001  library exceptions are outcomes
                self.results[name] = ("exc", e)
        except Killed:
            pass
        except BaseException as e:  # noqa: BLE001  engine control flow (PathAbort, Unmodelled, ...)
            self.error = e
            self.kill = True
        finally:
            with self.cv:
                if name in self.alive:
                    self.alive.remove(name)
                if self.kill or not self.alive:
                    self.current = "main"
                else:
                    self.current = self.alive[0] if len(self.alive) == 1 else self.alive[ctx.choose_free(len(self.alive))] if not self.kill else "main"
                self.cv.notify_all()

    def run(self, fns):
        """fns: dict name -> thunk.  Returns dict name -> ('ret', v) | ('exc', e)"""
        names = list(fns)
        self.alive = list(names)
        threads = [threading.Thread(target=self._body, args=(n, fns[n]), name=n, daemon=True) for n in names]
        old = ctx.on_shared_access
        ctx.on_shared_access = self.access
        try:
            for t in threads:
                t.start()
            first = names[ctx.choose_free(len(names))]
            with self.cv:
                self.current = first
                self.cv.notify_all()
                while self.current != "main":
                    self.cv.wait()
            with self.cv:
                self.kill = self.kill or bool(self.alive)
                self.cv.notify_all()
            for t in threads:
                t.join(timeout=30)
        finally:
            ctx.on_shared_access = old
        if self.error is not None:
            raise self.error
        return self.results
