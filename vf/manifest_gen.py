"""Regenerates MANIFEST.json from the per-property descriptions below (kept here so the file stays consistent)."""
import json
import os

ROOT = os.path.dirname(os.path.dirname(os.path.abspath(__file__)))
TECH = "bounded symbolic execution of the AST-instrumented real source (SX engine) + z3 SMT queries per path; counterexamples replayed on the uninstrumented library"
TRUST = "environment models of C-level functions (re, str.upper, int, str, format; self-tested against the real builtins each run), the reference specifications under /verif/spec, z3 5.1; bounds as stated in evidence.coverage.bounds"

CHECKS = {}
NA = {}


def check(pid, text, note, ref):
    CHECKS[pid] = {
        "property_id": pid,
        "quick_cmd": f"./check {pid} --tier quick",
        "thorough_cmd": f"./check {pid} --tier thorough",
        "evidence_file": f"/verif/evidence/{pid}.json",
        "replay_cmd_template": "./check --replay {path}",
        "engine": "sx",
        "level_claimed": {"category": "model_checking", "text": text, "design_ref": ref},
        "level_note": note + " Trusted base: " + TRUST,
        "technique": TECH,
    }


def load_descriptions():
    import importlib.util

    spec = importlib.util.spec_from_file_location("descr", os.path.join(ROOT, "vf", "descriptions.py"))
    m = importlib.util.module_from_spec(spec)
    spec.loader.exec_module(m)
    return m


def main():
    d = load_descriptions()
    for pid, (text, note, ref) in d.CLAIMED.items():
        check(pid, text, note, ref)
    all_ids = [f"C{i:02d}" for i in range(1, 19)]
    na = [{"property_id": p, "reason": d.NOT_APPLICABLE.get(p, "check not landed yet in this round (engine reaches it; see DESIGN.md section 3)")} for p in all_ids if p not in CHECKS]
    man = {
        "version": 1,
        "setup_cmd": "./setup.sh",
        "hooks": {
            "guard": "SCHWIFTY_VERIF",
            "enable": "none needed: instrumentation happens in the engine's import hook (sx/instr.py), /repo carries no hook code",
            "baseline_off_cmd": "cd /repo && /venv/bin/python -m pytest -ra -q -p no:cacheprovider --timeout=900 --continue-on-collection-errors",
            "source_commits": [],
            "add_only": True,
        },
        "engines": [
            {"name": "sx", "path": "/verif/sx", "serves_properties": sorted(CHECKS), "kind_free_text": "symbolic executor for the instrumented real Python source over z3 (per-path SMT queries, exhaustive path enumeration within stated bounds)"}
        ],
        "checks": [CHECKS[p] for p in sorted(CHECKS)],
        "notes": "exit 0 = every path of every harness exhausted and every obligation unsat; exit 1 = replay-confirmed violation; exit 2 = inconclusive (solver unknown / unmodelled construct), never reported as a verdict.",
        "not_applicable": na,
    }
    with open(os.path.join(ROOT, "MANIFEST.json"), "w") as f:
        json.dump(man, f, indent=1)
    print("MANIFEST.json:", len(CHECKS), "checks,", len(na), "not claimed")


if __name__ == "__main__":
    main()
