"""Check driver: runs a property's harness jobs on all cores, replays counterexamples on the real library,
applies the known-findings file, writes evidence, prints the verdict lines and returns the exit code."""
import json
import multiprocessing as mp
import os
import subprocess
import sys
import time
import traceback

ROOT = os.path.dirname(os.path.dirname(os.path.abspath(__file__)))
EXIT_OK, EXIT_VIOLATION, EXIT_INCONCLUSIVE = 0, 1, 2


def load_known():
    with open(os.path.join(ROOT, "known_findings.json")) as f:
        return json.load(f)


def _worker(args):
    modname, job = args
    import importlib

    from sx import rt
    from sx.core import Inconclusive, Unmodelled

    mod = importlib.import_module(modname)
    rt.ctx.stats.clear()
    rt.ctx.entered = set()
    t = time.time()
    budget = float(os.environ.get("SX_JOB_BUDGET_S", "0") or 0) or getattr(mod, "JOB_BUDGET_S", 600)
    rt.ctx.deadline = t + budget
    import faulthandler

    # hard stop for a job that neither finishes nor reaches the budget check (deadlock, runaway solver call): the worker
    # process exits, the pool reports it and the job is retried / reported inconclusive
    faulthandler.dump_traceback_later(budget + 200, exit=True)
    import signal

    def _alarm(signum, frame):
        raise Inconclusive(f"job wall budget of {int(budget)} s exhausted inside a path")

    try:
        signal.signal(signal.SIGALRM, _alarm)
        signal.alarm(int(budget + 45))
    except ValueError:
        pass  # not in the main thread of the process
    res = {"job": job, "violations": _Capped(), "witnesses": [], "inconclusive": [], "notes": [], "obligations": 0}
    try:
        mod.run_job(job, res)
    except (Unmodelled, Inconclusive) as e:
        res["inconclusive"].append(f"{type(e).__name__}: {_msg(e)} @ {_where(e)}")
    except AssertionError as e:
        res["inconclusive"].append(f"harness assertion: {_msg(e)} @ {_where(e)}")
    except Exception as e:  # noqa: BLE001
        res["inconclusive"].append(f"harness error {type(e).__name__}: {_msg(e)} @ {_where(e)}")
    faulthandler.cancel_dump_traceback_later()
    try:
        signal.alarm(0)
    except ValueError:
        pass
    res["violations"] = list(res["violations"])
    res["stats"] = dict(rt.ctx.stats)
    res["functions"] = sorted(rt.ctx.entered)
    res["wall_s"] = round(time.time() - t, 3)
    return res


def _msg(e):
    try:
        return str(e)
    except BaseException:  # noqa: BLE001  (message may hold a symbolic string)
        return "<symbolic message>"


class _Capped(list):
    """violations of one job: exploration of the job stops after a few counterexamples"""

    CAP = 3

    def append(self, v):
        from sx.core import StopExploration

        list.append(self, v)
        if len(self) >= self.CAP:
            raise StopExploration


def _where(e):
    tb = traceback.extract_tb(e.__traceback__)
    fr = [f for f in tb if "/sx/" not in f.filename] or tb
    return "; ".join(f"{os.path.basename(f.filename)}:{f.lineno}" for f in fr[-3:])


def replay_many(records, timeout=900):
    """replay a batch of records in one interpreter; returns one verdict dict per record"""
    out = []
    for i in range(0, len(records), 400):
        chunk = records[i : i + 400]
        r = replay(chunk, timeout)
        if not isinstance(r, list) or len(r) != len(chunk):
            r = [replay(x) for x in chunk]
        out.extend(r)
    return out


def replay(record, timeout=120):
    """run a replay record against the uninstrumented library under /venv/bin/python; returns the replay verdict dict"""
    p = subprocess.run(
        ["/venv/bin/python", os.path.join(ROOT, "replay.py"), "--json", "-"],
        input=json.dumps(record),
        capture_output=True,
        text=True,
        timeout=timeout,
        env={**os.environ, "PYTHONPATH": os.environ.get("SX_ROOT", "/repo"), "PYTHONDONTWRITEBYTECODE": "1"},
    )
    try:
        return json.loads(p.stdout.strip().splitlines()[-1])
    except Exception:  # noqa: BLE001
        return {"reproduced": None, "error": (p.stdout + p.stderr)[-2000:]}


def run_check(pid, tier, modname):
    import importlib

    t0 = time.time()
    seed = int(os.environ.get("VERIF_SEED", "0") or 0)
    os.makedirs(os.path.join(ROOT, "evidence"), exist_ok=True)
    os.makedirs(os.path.join(ROOT, "replays"), exist_ok=True)
    from sx import instr

    instr.install()
    from sx import selftest

    st = selftest.run()
    import schwifty  # noqa: F401  instrumented import happens once, in the parent, before the workers fork

    mod = importlib.import_module(modname)
    prep = getattr(mod, "prepare", None)
    pre = prep(tier, seed) if prep else {}
    jobs = mod.jobs(tier, seed)
    # debugging aid for runs against seeded changes (tools/seed.py): restrict to the jobs whose JSON contains the
    # substring.  A filtered run can report violations but never "held" (it is inconclusive otherwise).
    jfilter = os.environ.get("SX_JOB_FILTER")
    all_jobs = len(jobs)
    if jfilter:
        jobs = [j for j in jobs if jfilter in json.dumps(j, default=str)]
    nproc = int(os.environ.get("VERIF_JOBS", "0") or 0) or min(16, os.cpu_count() or 4)
    results = []
    if nproc > 1 and len(jobs) > 1:
        from concurrent.futures import ProcessPoolExecutor, as_completed
        from concurrent.futures.process import BrokenProcessPool

        pending = list(jobs)
        attempts = 0
        while pending and attempts < 2:
            attempts += 1
            done_jobs = []
            try:
                with ProcessPoolExecutor(nproc, mp_context=mp.get_context("fork")) as ex:
                    futs = {ex.submit(_worker, (modname, j)): j for j in pending}
                    for f in as_completed(futs):
                        results.append(f.result())
                        done_jobs.append(futs[f])
            except BrokenProcessPool:
                # a worker died (e.g. killed for memory): the jobs that did not report are retried, then given up
                pass
            pending = [j for j in pending if not any(j is d for d in done_jobs)]
        for j in pending:
            results.append({"job": j, "violations": [], "witnesses": [], "inconclusive": ["worker process died while running this job"], "notes": [], "obligations": 0, "stats": {}, "functions": [], "wall_s": 0.0})
    else:
        for j in jobs:
            results.append(_worker((modname, j)))
    results.sort(key=lambda r: json.dumps(r["job"], sort_keys=True, default=str))

    known = [k for k in load_known().get("findings", []) if k.get("property") == pid and k.get("status") == "finding"]
    inconclusive = list(st.get("failures", []))
    if jfilter:
        inconclusive.append(f"job filter {jfilter!r} active: {len(jobs)} of {all_jobs} jobs run")
    violations, known_hits, replayed = [], {}, 0
    allv = [v for r in results for v in r["violations"]]
    allw = [w for r in results for w in r["witnesses"]]
    rvs = iter(replay_many(allv))
    rws = iter(replay_many(allw))
    for r in results:
        inconclusive.extend(f"{json.dumps(r['job'], default=str)}: {x}" for x in r["inconclusive"])
        for v in r["violations"]:
            rv = next(rvs)
            replayed += 1
            if rv.get("reproduced") is True:
                kf = next((k for k in known if k["id"] == v.get("region")), None)
                if kf is not None:
                    known_hits.setdefault(kf["id"], (kf, v))
                else:
                    violations.append((v, rv))
            else:
                inconclusive.append(f"counterexample did not reproduce on the real library: {json.dumps(v)[:600]} -> {rv}")
    wit_ok = 0
    for r in results:
        for w in r["witnesses"]:
            rv = next(rws)
            replayed += 1
            if rv.get("reproduced") is True:
                wit_ok += 1
            else:
                inconclusive.append(f"witness mismatch (engine vs real library): {json.dumps(w)[:600]} -> {rv}")

    agg = {}
    for r in results:
        for k, v in r["stats"].items():
            agg[k] = agg.get(k, 0) + v
    functions = sorted({f for r in results for f in r["functions"]})
    ev = {
        "property_id": pid,
        "tier": tier,
        "seed": seed,
        "level": "model_checking",
        "coverage": {
            "states": int(agg.get("paths", 0)),
            "transitions": int(agg.get("forks", 0)) + int(agg.get("paths", 0)),
            "traces_validated_against_impl": wit_ok + st.get("traces", 0),
            "samples": _samples(results),
            "exhaustive": not inconclusive,
            "jobs": len(jobs),
            "obligations_discharged": sum(r.get("obligations", 0) for r in results),
            "queries": {
                "total": int(agg.get("queries", 0)),
                "sat": int(agg.get("q_sat", 0)),
                "unsat": int(agg.get("q_unsat", 0)),
                "unknown": int(agg.get("q_unknown", 0)),
                "light": int(agg.get("q_light", 0)),
                "abstraction_unsat": int(agg.get("abs_unsat", 0)),
            },
            "solver_s": round(agg.get("solver_s", 0.0), 2),
            "cpu_s": round(sum(r["wall_s"] for r in results), 1),
            "functions_encoded": functions,
            "bounds": getattr(mod, "BOUNDS", {}).get(tier, getattr(mod, "BOUNDS", {})),
            "stubs": getattr(mod, "STUBS", []),
            "selftest": {k: v for k, v in st.items() if k != "failures"},
            "replayed": replayed,
            "inconclusive": inconclusive[:50],
            "known_findings_hit": sorted(known_hits),
            "notes": sorted({n for r in results for n in r["notes"]})[:50],
            **pre.get("coverage", {}),
        },
        "assumptions": getattr(mod, "ASSUMPTIONS", []) + pre.get("assumptions", []),
        "wall_s": round(time.time() - t0, 2),
        "violations": len(violations),
    }
    evdir = "evidence" if not os.environ.get("VERIF_NO_EVIDENCE") else "replays"
    with open(os.path.join(ROOT, evdir, f"{pid}.json"), "w") as f:
        json.dump(ev, f, indent=1, default=str)
    for kid, (kf, v) in sorted(known_hits.items()):
        print(f"KNOWN-FINDING: property={pid} {kf['what']}")
    code = EXIT_OK
    for i, (v, rv) in enumerate(violations[:20]):
        path = os.path.join(ROOT, "replays", f"{pid}-{i}.json")
        with open(path, "w") as f:
            json.dump(v, f, indent=1)
        print(f"VIOLATION property={pid} replay={path}")
        print(f"  {v.get('what', '')} :: observed {rv.get('observed')}")
        code = EXIT_VIOLATION
    if inconclusive and code == EXIT_OK:
        for x in inconclusive[:10]:
            print(f"INCONCLUSIVE property={pid} reason={x[:700]}")
        code = EXIT_INCONCLUSIVE
    c = ev["coverage"]
    slow = sorted(results, key=lambda r: -r["wall_s"])[:4]
    print("slowest jobs: " + "; ".join(f"{json.dumps(r['job'], default=str)[:80]} {r['wall_s']}s" for r in slow))
    print(
        f"{pid} {tier}: jobs={len(jobs)} paths={c['states']} queries={c['queries']['total']} "
        f"(unsat {c['queries']['unsat']}, sat {c['queries']['sat']}) solver={c['solver_s']}s "
        f"obligations={c['obligations_discharged']} replayed={replayed} wall={ev['wall_s']}s -> exit {code}"
    )
    return code


def _samples(results):
    out = []
    for r in results:
        for w in r["witnesses"][:2]:
            out.append({"job": r["job"], "witness": {k: w[k] for k in w if k in ("call", "engine", "what")}})
        if len(out) >= 12:
            break
    if not out:
        out = [{"job": r["job"], "paths": r["stats"].get("paths", 0)} for r in results[:5]]
    return out
