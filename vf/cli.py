import argparse
import os
import sys

sys.path.insert(0, os.path.dirname(os.path.dirname(os.path.abspath(__file__))))
sys.setrecursionlimit(20000)


def main():
    ap = argparse.ArgumentParser()
    ap.add_argument("pid")
    ap.add_argument("--tier", default=os.environ.get("VERIF_TIER") or "quick", choices=["quick", "thorough"])
    a = ap.parse_args()
    from vf import runner

    pid = a.pid.upper()
    try:
        code = runner.run_check(pid, a.tier, f"harness.{pid.lower()}")
    except SystemExit:
        raise
    except BaseException as e:  # noqa: BLE001  an internal failure is never a verdict
        import traceback

        traceback.print_exc()
        print(f"INCONCLUSIVE property={pid} reason=internal error {type(e).__name__}: {e}")
        code = 2
    sys.exit(code)


if __name__ == "__main__":
    main()
