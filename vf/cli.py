import argparse
import os
import sys

sys.path.insert(0, os.path.dirname(os.path.dirname(os.path.abspath(__file__))))
sys.setrecursionlimit(20000)


def main():
    ap = argparse.ArgumentParser()
    ap.add_argument("pid")
    ap.add_argument("--tier", default=os.environ.get("VERIF_TIER") or "quick", choices=["quick", "thorough"])
    a = ap.parse_args()
    from vf import runner

    pid = a.pid.upper()
    code = runner.run_check(pid, a.tier, f"harness.{pid.lower()}")
    sys.exit(code)


if __name__ == "__main__":
    main()
