CLAIMED = {
    "C01": (
        "For every country of the bundled table (quick: one per distinct table signature, thorough: all) plus the residual unknown-prefix case, and every length 0..40, the real IBAN constructor is executed symbolically on a compact string of arbitrary code points; every path's outcome is proved (unsat) to agree with an independent ISO 13616 reference. Raw-text normalisation is proved equal to a reference normaliser for all texts up to the lemma bound.",
        "Bounded: lengths 0..40, raw-text lemma |t|<=3 (quick) / 4 (thorough); longer raw texts rely on re.sub/str.upper acting per character.",
        "3 C01",
    ),
}
NOT_APPLICABLE = {}
