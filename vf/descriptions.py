CLAIMED = {
    "C01": (
        "For every country of the bundled table (quick: one per distinct table signature, thorough: all) plus the residual unknown-prefix case, and every length 0..40, the real IBAN constructor is executed symbolically on a compact string of arbitrary code points; every path's outcome is proved (unsat) to agree with an independent ISO 13616 reference. Raw-text normalisation is proved equal to a reference normaliser for all texts up to the lemma bound.",
        "Bounded: lengths 0..40, raw-text lemma |t|<=3 (quick) / 4 (thorough); longer raw texts rely on re.sub/str.upper acting per character.",
        "3 C01",
    ),
    "C04": (
        "For every length 0..14 and both compliance modes the real BIC constructor is executed symbolically on a compact string of arbitrary code points; every path's outcome is proved to agree with an independent ISO 9362 reference (country set read from the installed pycountry). Raw-text normalisation proved for texts up to the lemma bound.",
        "Bounded: lengths 0..14 (longer texts take the same length-rejection branch), raw-text lemma |t|<=3/4.",
        "3 C04",
    ),
    "C05": (
        "On the C01/C04 input spaces the validating constructor, validate() and is_valid are executed in one path; per path the solver shows that only library exceptions escape, is_valid never raises, the three entry points agree, and the class of each raised error implies the named defect under the reference.",
        "Bounded as C01/C04 (quick: own length for one country per signature, all lengths for 8 seeded countries + unknown prefix). InvalidBBANChecksum soundness is part of C06/C07.",
        "3 C05",
    ),
}
NOT_APPLICABLE = {}
