CLAIMED = {
    "C01": (
        "For every country of the bundled table (quick: one per distinct table signature, thorough: all) plus the residual unknown-prefix case, and every length 0..40, the real IBAN constructor is executed symbolically on a compact string of arbitrary code points; every path's outcome is proved (unsat) to agree with an independent ISO 13616 reference. Raw-text normalisation is proved equal to a reference normaliser for all texts up to the lemma bound.",
        "Bounded: lengths 0..40, raw-text lemma |t|<=3 (quick) / 4 (thorough); longer raw texts rely on re.sub/str.upper acting per character.",
        "3 C01",
    ),
    "C04": (
        "For every length 0..14 and both compliance modes the real BIC constructor is executed symbolically on a compact string of arbitrary code points; every path's outcome is proved to agree with an independent ISO 9362 reference (country set read from the installed pycountry). Raw-text normalisation proved for texts up to the lemma bound.",
        "Bounded: lengths 0..14 (longer texts take the same length-rejection branch), raw-text lemma |t|<=3/4.",
        "3 C04",
    ),
    "C05": (
        "On the C01/C04 input spaces the validating constructor, validate() and is_valid are executed in one path; per path the solver shows that only library exceptions escape, is_valid never raises, the three entry points agree, and the class of each raised error implies the named defect under the reference.",
        "Bounded as C01/C04 (quick: own length for one country per signature, all lengths for 8 seeded countries + unknown prefix; thorough: all lengths for 48 seeded countries). InvalidBBANChecksum soundness is part of C06/C07.",
        "3 C05",
    ),
    "C02": (
        "Per country, for a symbolic BBAN ranging over all structure-conforming BBANs and a symbolic check-digit pair ranging over all 100 pairs, the real from_bban and the real validating constructor are executed; the solver shows from_bban always returns with digits in 02..98 and that a pair is accepted iff it equals the computed one.",
        "Unbounded within the country's structure (all BBANs, all pairs); quick: one country per table signature, thorough: all 126.",
        "3 C02",
    ),
    "C03": (
        "Per country and position, the real pipeline runs on a symbolic valid IBAN and on its single-substitution / adjacent-transposition mutant (same kind, different value); the path on which both are accepted is shown infeasible by the solver.",
        "quick: one country per distinct per-position class string, boundary + seeded interior positions; thorough: every country; every position for structures without digit-or-letter tokens, boundaries + 3 interior positions per token otherwise.",
        "3 C03",
    ),
    "C10": (
        "For symbolic compact strings with an optional arbitrary whitespace code point in every gap and a free ASCII case bit per letter, the real constructors run on the variant and on the compact form in one path: same outcome, equal objects. For all accepted IBANs/BICs the formatted form equals the reference grouping and re-parsing formatted/str/compact gives an equal object.",
        "One whitespace slot per gap (runs: Lemma N of C01/C04), ASCII case variants; quick: one country per signature.",
        "3 C10",
    ),
    "C11": (
        "For all accepted IBANs of each country (symbolic content) every accessor of the real object is compared by the solver with the slice of the input at the reference table's position; parts concatenate to the compact form; re-assembly via from_bban is equal. Same for the four BIC parts (lengths 8, 11).",
        "quick: one country per table signature; thorough: all 126. Reference positions come from the same JSON files via an independent merge.",
        "3 C11",
    ),
    "C07": (
        "Every registered Bundesbank method object is executed on ten symbolic digits (all 10^10 accounts) and proved equivalent to an independent transcription of the published rule wherever that transcription is certain; the bank-code -> method dispatch is executed for every German bank code of the registry (and the unlisted case) with the method bodies replaced by recording stubs of free verdict; one bank per method is run through IBAN(..., validate_bban=True).",
        "Reference clauses that could not be stated with certainty (13, 21, 63, 68, 76: see evidence assumptions) are excluded by assumption, shrinking the claim.",
        "3 C07",
    ),
    "C06": (
        "For each of the 22 countries the real BBAN-level national check runs on a symbolic BBAN ranging over all structure-conforming BBANs and is proved equivalent to an independent transcription of the published rule (success = True, failure = library exception). Through the public API, for inputs whose check digits are the reference digits (plain validation holds by construction) and for inputs with wrong check digits, IBAN(w), IBAN(w, validate_bban=True), validate(validate_bban=True) and the BBAN-level check are executed in one path and shown consistent; countries without an algorithm are shown unaffected.",
        "IT/SM: quick tier covers the account kind patterns with <= 1 letter, the all-letter pattern and 12 seeded patterns; thorough all 4096. Norway's '00' account branch is excluded by assumption (oracle uncertain). German banks: C07.",
        "3 C06",
    ),
    "C08": (
        "IBAN.generate is executed on symbolic component strings (quick: full widths, each component one longer, account one shorter, combined bank+branch width, for the 19 computing countries + DE, GB + 4 seeded others; thorough: every length 0..width+2 per component and seeded triples for all countries); per path the solver shows the outcome is a valid IBAN whose component fields equal the upper-cased, zero-padded inputs (combined bank+branch split), or a library error of the component-specific class when a component is over-long.",
        "Alphabet: ASCII digits/letters and all upper-case-stable code points (whitespace/expanding/non-ASCII case-changing code points: Lemma N on clean()). A combined-width bank code together with a non-empty branch code is outside the claim.",
        "3 C08",
    ),
    "C09": (
        "For the 19 computing countries BBAN.from_components runs on symbolic class-conforming components; wherever it returns, the national check of the result returns True and IBAN.generate of the same components validates nationally. For every country with positions a symbolic (nationally valid) BBAN is decomposed and rebuilt by the real code and compared position by position.",
        "IT/SM: numeric and all-letter account patterns (thorough: 64 seeded patterns). Stated at BBAN level; the IBAN-level link is C06.",
        "3 C09",
    ),
    "C16": (
        "For two symbolic texts wrapped as IBAN/BIC/BBAN/plain str (all 16 kind pairs, lengths 0..2 each; thorough 0..3) the six comparison operators of the real classes and hash() are proved equal to the operators on the normalised strings. copy.copy, copy.deepcopy and the pickle reduce/reconstruct round trip run for real on objects of symbolic content and must return an equal object of the same class with equal country and components.",
        "hash modelled as an uninterpreted function of the content; pickle byte format not modelled (reduce/reconstruct contract only).",
        "3 C16",
    ),
    "C17": (
        "On the data the tree bundles at run time: for every country and every length 0..40 the solver decides whether the regex object built by the real import-time code can match a string of that length (sat iff the stated bban_length); positions inside the BBAN / disjoint and the bank-entry clauses are discharged as unsat queries over a symbolic position / row index; for every country with banks a symbolic bank key constrained to the listed codes is run through the real IBAN.from_bban and bank look-up and must be found again.",
        "Everything is relative to the bundled data (re-read on every run). Generic three-field algorithms may see an empty string for a field the country lacks (see assumptions).",
        "3 C17",
    ),
    "C18": (
        "merge_dicts is executed on operand shapes enumerated exhaustively by engine forks (every key absent / leaf / nested over bounded key pools and depth, every frozenset iteration order) with distinct symbolic leaves and compared with a reference deep later-wins merge; inputs must stay unmodified. registry.get, parse_v2 and save run on stub directories of 1-3 files in every glob order (dict, list and v2 documents) and must equal the reference composition in sorted-name order.",
        "Bounded shapes (see evidence bounds). The solver's part is small here: leaves are opaque to the code; the exhaustive part is the fork-enumerated shape tree.",
        "3 C18",
    ),
    "C14": (
        "The shared mutable state written at call time is found by a write monitor (attributes of objects that pre-exist the call). For every registered German method object one caller with a symbolic account runs against an adversary: before each of its accesses to a shared location another real thread overwrites that location with an arbitrary value 0..10; the solver shows the caller's outcome equals its solo outcome on every path. For methods with few paths two real logical threads with two symbolic accounts run under a baton scheduler whose switch points are the shared accesses and whose choices are engine forks (all schedules). The same adversary harness runs through IBAN(..., validate_bban=True). Non-German algorithm objects must write nothing at call time.",
        "2 logical scheduler threads (the adversary stands for any number of interfering threads); switch points = reads/writes of shared locations (thread-local steps commute); CPython-internal atomicity, third-party locks and registries (read-only: C15) are outside.",
        "3 C14",
    ),
    "C15": (
        "Frame: all API calls in the harness run under the write monitor and must not write to objects reachable from the registries or to previously created value objects. Havoc: for every German method object the scratch attributes are set to two independent fresh symbolic values and the same symbolic account must get the same verdict. Pairs: g(y) on pristine state (own writes undone), then f(x), then g(y) again must agree, for same-country and cross-country (equal BBAN length) parse-and-observe calls with symbolic texts, and for BICs.",
        "Histories longer than two calls follow by induction from frame + havoc, not by enumeration; lazy initialisation inside re/pycountry is environment.",
        "3 C15",
    ),
    "C12": (
        "A: every bank list of up to 2 (thorough 3) entries over small pools (country, bank code incl. empty, BIC forms incl. empty/8/11/XXX, primary flag) is enumerated by engine forks, installed and indexed by the real registry code and queried through the real API; every answer is compared with reference look-up semantics. B: for each listed (country, code) key of the bundled registry (quick: a seeded quarter of the 250-code chunks, every country) an IBAN with that key and otherwise symbolic BBAN is built by the real code; bic/bank/names, candidates, the chosen BIC and the reverse look-ups are compared with the reference; a symbolic key constrained to be unlisted must yield None/InvalidBankCode.",
        "Registry contents in A are concrete values chosen by forks, and B is a per-key sweep with the remaining characters symbolic: the solver decides path feasibility, the exhaustive part is the fork tree (stated plainly). The tie-break among generic candidates is not demanded.",
        "3 C12",
    ),
    "C13": (
        "IBAN.random (and through it BBAN.random, from_components, from_bban) is executed with nondeterministic stubs for the generator (choice() = arbitrary element: fork over countries, a bank entry whose code is a symbolic string constrained to the country's listed codes) and for rstr.xeger (arbitrary string of the regex's shape), with symbolic field-wide class-conforming pinned components. Per path the solver shows: valid IBAN of the requested country or the documented overflow error, pinned components read back unchanged, a registry draw keeps the drawn bank's code as look-up key, and the nondeterminism monitor (set iteration, hash, id, unseeded Random, clock) records nothing; a separate probe imports the library in two fresh interpreters, one of which reverses every set iteration of the instrumented code (import time included), and requires the sequences handed to choice() to be identical.",
        "Relative to the stubs' contracts; 2 of the 100 retry iterations (independent, state-free); pin sets: none / branch / bank+branch+account (thorough: six); quick: 31 countries + 6 seeded no-country draws.",
        "3 C13",
    ),
}
NOT_APPLICABLE = {}
