#!/bin/bash
# Builds /verif/.venv: an overlay on /venv (repo deps: pycountry, rstr) plus z3-solver from the offline wheelhouse.
set -e
cd "$(dirname "$0")"
V=.venv
if [ ! -x $V/bin/python ] || ! $V/bin/python -c "import z3, pycountry, rstr" 2>/dev/null; then
  rm -rf $V
  /venv/bin/python -m venv $V
  SP=$($V/bin/python -c "import sysconfig;print(sysconfig.get_paths()['purelib'])")
  echo "/venv/lib/python3.12/site-packages" > $SP/_verif_overlay.pth
  PIP_NO_INDEX=1 $V/bin/pip install -q --no-index --find-links /opt/veriftools/wheels z3-solver >/dev/null
  $V/bin/python -c "import z3, pycountry, rstr; print('verif venv ready, z3', z3.get_version_string())"
fi
