#!/venv/bin/python
"""Replay a counterexample / witness record against the *uninstrumented* library (plain `import schwifty`).

usage: replay.py <file.json> | replay.py --json -   (record on stdin)
Prints one JSON line {"reproduced": bool, "observed": ...}; exit 0 if reproduced, 3 if not.

Record:  {"call": {"steps": [...]}, "mode": "violation"|"witness", "pred": {...}, "engine": {...}}
Steps:   ["call", "dotted.name", [args], {kwargs}] | ["attr", name] | ["method", name, [args], {kwargs}]
         | ["apply", "dotted.name"]   (call dotted.name(current value))
Strings are encoded as {"cp": [code points]} so lone surrogates survive JSON.
"""
import importlib
import json
import sys


def dec(x):
    if isinstance(x, dict):
        if set(x) == {"cp"}:
            return "".join(map(chr, x["cp"]))
        if set(x) == {"ref"}:
            return resolve(x["ref"])
        if set(x) == {"steps"}:
            out = run_steps(x["steps"])
            if out["outcome"] != "return":
                raise RuntimeError(f"nested steps raised {out}")
            return out["_raw"]
        if set(x) == {"tuple"}:
            return tuple(dec(v) for v in x["tuple"])
        return {k: dec(v) for k, v in x.items()}
    if isinstance(x, list):
        return [dec(v) for v in x]
    return x


def enc(x):
    if isinstance(x, str):
        return {"cp": [ord(c) for c in x], "type": type(x).__name__}
    if isinstance(x, (bool, int, type(None))):
        return x
    if isinstance(x, (list, tuple)):
        return [enc(v) for v in x]
    if isinstance(x, dict):
        return {"dict": [[enc(k), enc(v)] for k, v in x.items()]}
    return {"repr": repr(x)}


def resolve(name):
    parts = name.split(".")
    for i in range(len(parts), 0, -1):
        try:
            obj = importlib.import_module(".".join(parts[:i]))
        except ImportError:
            continue
        for p in parts[i:]:
            obj = getattr(obj, p) if not isinstance(obj, dict) else obj[p]
        return obj
    raise ImportError(name)


def run_steps(steps):
    from schwifty.exceptions import SchwiftyException

    cur = None
    try:
        for st in steps:
            kind = st[0]
            if kind == "call":
                cur = resolve(st[1])(*dec(st[2]), **dec(st[3] if len(st) > 3 else {}))
            elif kind == "attr":
                cur = getattr(cur, st[1])
            elif kind == "method":
                cur = getattr(cur, st[1])(*dec(st[2] if len(st) > 2 else []), **dec(st[3] if len(st) > 3 else {}))
            elif kind == "apply":
                cur = resolve(st[1])(cur)
            elif kind == "item":
                cur = cur[dec(st[1])]
            else:
                raise RuntimeError(f"unknown step {kind}")
    except Exception as e:  # noqa: BLE001
        return {
            "outcome": "raise",
            "exc": type(e).__name__,
            "library": isinstance(e, SchwiftyException),
            "mro": [c.__name__ for c in type(e).__mro__],
        }
    return {"outcome": "return", "value": enc(cur), "_raw": cur}


def same_value(a, b):
    def strip(v):
        if isinstance(v, dict) and "cp" in v:
            return ("s", tuple(v["cp"]))
        if isinstance(v, list):
            return tuple(strip(x) for x in v)
        if isinstance(v, dict) and "dict" in v:
            return ("d", tuple((strip(k), strip(x)) for k, x in v["dict"]))
        return v

    return strip(a) == strip(b)


def judge(rec, obs):
    mode = rec.get("mode", "violation")
    if mode == "witness":
        eng = rec["engine"]
        if eng["outcome"] != obs["outcome"]:
            return False
        if eng["outcome"] == "raise":
            return eng.get("exc") in (None, obs["exc"])
        if "value" in eng:
            return same_value(eng["value"], obs["value"])
        return True
    pred = rec["pred"]
    k = pred["kind"]
    if k == "returns":
        return obs["outcome"] == "return"
    if k == "raises":
        return obs["outcome"] == "raise"
    if k == "raises_non_library":
        return obs["outcome"] == "raise" and not obs["library"]
    if k == "raises_class":
        return obs["outcome"] == "raise" and obs["exc"] == pred["exc"]
    if k == "not_raises_class":
        return not (obs["outcome"] == "raise" and obs["exc"] == pred["exc"])
    if k == "value_is":
        return obs["outcome"] == "return" and same_value(obs["value"], pred["value"])
    if k == "value_is_not":
        return obs["outcome"] == "return" and not same_value(obs["value"], pred["value"])
    if k == "not_value":
        # anything but returning exactly this value (raising included)
        return not (obs["outcome"] == "return" and same_value(obs["value"], pred["value"]))
    if k == "outcomes_differ":
        other = run_steps(pred["other"]["steps"])
        other.pop("_raw", None)
        a = (obs["outcome"], obs.get("exc"), json.dumps(obs.get("value"), sort_keys=True))
        b = (other["outcome"], other.get("exc"), json.dumps(other.get("value"), sort_keys=True))
        return a != b
    if k == "custom":
        mod = importlib.import_module(pred["module"])
        return bool(getattr(mod, pred["func"])(rec, obs))
    raise RuntimeError(f"unknown predicate {k}")


def main():
    if len(sys.argv) >= 3 and sys.argv[1] == "--json":
        rec = json.load(sys.stdin)
    else:
        with open(sys.argv[1]) as f:
            rec = json.load(f)
    if isinstance(rec, list):
        outs = []
        for r in rec:
            try:
                outs.append(one(r))
            except Exception as e:  # noqa: BLE001
                outs.append({"reproduced": None, "error": f"{type(e).__name__}: {e}"})
        print(json.dumps(outs, default=str))
        sys.exit(0)
    out = one(rec)
    print(json.dumps(out, default=str))
    sys.exit(0 if out.get("reproduced") else 3)


def one(rec):
    pre = rec.get("setup")
    if pre:
        sys.path.insert(0, "/verif")
        mod = importlib.import_module(pre["module"])
        return getattr(mod, pre["func"])(rec)
    obs = run_steps(rec["call"]["steps"])
    obs.pop("_raw", None)
    ok = judge(rec, obs)
    return {"reproduced": bool(ok), "observed": obs}


if __name__ == "__main__":
    main()
